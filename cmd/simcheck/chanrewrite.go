package main

// Seam 5: channels and select (see sim/rt/chan.go). Only active when the
// library copy uses channels at all; the unchanged library does not.
//
//	chan T, <-chan T, chan<- T     ->  *vsim__.Chan[T]
//	make(chan T[, n])              ->  vsim__.NewChan[T](n)
//	c <- v                         ->  c.Send(v)
//	<-c ; v, ok := <-c             ->  c.Recv() ; c.Recv2()
//	close(c), len(c), cap(c)       ->  c.Close(), c.Len(), c.Cap()
//	for v := range c { ... }       ->  for { v, ok := c.Recv2(); if !ok { break }; ... }
//	select { ... }                 ->  { cases...; switch vsim__.Select(hasDefault, cases...) { ... } }
//
// len/cap/range need to know that the operand is a channel: that comes from
// the type-checking pass of seam 4 (position keyed).

import (
	"fmt"
	"go/ast"
	"go/token"
	"reflect"
)

type chanInfo struct {
	rangeAt map[string]bool // "file:offset" of the `for` of a range over a channel
	lenCap  map[string]bool // "file:offset" of a len()/cap() call whose argument is a channel
}

func vsimSel(name string) ast.Expr {
	return &ast.SelectorExpr{X: ast.NewIdent("vsim__"), Sel: ast.NewIdent(name)}
}

func chanTypeExpr(elem ast.Expr) ast.Expr {
	return &ast.StarExpr{X: &ast.IndexExpr{X: vsimSel("Chan"), Index: elem}}
}

var exprType = reflect.TypeOf((*ast.Expr)(nil)).Elem()
var stmtType = reflect.TypeOf((*ast.Stmt)(nil)).Elem()

// mapExprs applies f bottom-up to every expression below n (in place).
func mapExprs(n ast.Node, f func(ast.Expr) ast.Expr) {
	if n == nil || reflect.ValueOf(n).IsNil() {
		return
	}
	v := reflect.ValueOf(n).Elem()
	if v.Kind() != reflect.Struct {
		return
	}
	for i := 0; i < v.NumField(); i++ {
		fv := v.Field(i)
		switch fv.Kind() {
		case reflect.Interface:
			if fv.IsNil() {
				continue
			}
			if node, ok := fv.Interface().(ast.Node); ok {
				mapExprs(node, f)
				if fv.Type() == exprType {
					fv.Set(reflect.ValueOf(f(fv.Interface().(ast.Expr))))
				}
			}
		case reflect.Pointer:
			if fv.IsNil() {
				continue
			}
			if node, ok := fv.Interface().(ast.Node); ok {
				mapExprs(node, f)
			}
		case reflect.Slice:
			for j := 0; j < fv.Len(); j++ {
				ev := fv.Index(j)
				if ev.Kind() == reflect.Interface && ev.IsNil() {
					continue
				}
				if ev.Kind() == reflect.Pointer && ev.IsNil() {
					continue
				}
				if !ev.CanInterface() {
					continue
				}
				if node, ok := ev.Interface().(ast.Node); ok {
					mapExprs(node, f)
					if ev.Type() == exprType {
						ev.Set(reflect.ValueOf(f(ev.Interface().(ast.Expr))))
					}
				}
			}
		}
	}
}

// mapStmts applies f to every statement in every statement list below n,
// bottom-up; f returns the replacement.
func mapStmts(n ast.Node, f func(ast.Stmt) ast.Stmt) {
	ast.Inspect(n, func(n ast.Node) bool {
		switch x := n.(type) {
		case *ast.BlockStmt:
			for i, s := range x.List {
				x.List[i] = f(s)
			}
		case *ast.CaseClause:
			for i, s := range x.Body {
				x.Body[i] = f(s)
			}
		case *ast.CommClause:
			for i, s := range x.Body {
				x.Body[i] = f(s)
			}
		case *ast.LabeledStmt:
			if _, isSel := x.Stmt.(*ast.SelectStmt); !isSel {
				x.Stmt = f(x.Stmt)
			}
		}
		return true
	})
}

type chanRewriter struct {
	in   *instrumenter
	info *chanInfo
	n    int
}

func (cr *chanRewriter) key(pos token.Pos) string {
	p := cr.in.fset.Position(pos)
	return fmt.Sprintf("%s:%d", p.Filename, p.Offset)
}

func isArrow(e ast.Expr) (*ast.UnaryExpr, bool) {
	for {
		p, ok := e.(*ast.ParenExpr)
		if !ok {
			break
		}
		e = p.X
	}
	u, ok := e.(*ast.UnaryExpr)
	return u, ok && u.Op == token.ARROW
}

func method(recv ast.Expr, name string, args ...ast.Expr) *ast.CallExpr {
	return &ast.CallExpr{Fun: &ast.SelectorExpr{X: recv, Sel: ast.NewIdent(name)}, Args: args}
}

// usesChannels reports whether the file mentions channels at all.
func usesChannels(f *ast.File) bool {
	found := false
	ast.Inspect(f, func(n ast.Node) bool {
		switch x := n.(type) {
		case *ast.ChanType, *ast.SendStmt, *ast.SelectStmt:
			found = true
		case *ast.UnaryExpr:
			if x.Op == token.ARROW {
				found = true
			}
		}
		return !found
	})
	return found
}

func (cr *chanRewriter) rewriteFile(f *ast.File) {
	// 1. statements that are channel operations or contain `v, ok := <-c`
	var stmt func(s ast.Stmt) ast.Stmt
	stmt = func(s ast.Stmt) ast.Stmt {
		switch x := s.(type) {
		case *ast.SendStmt:
			return &ast.ExprStmt{X: method(x.Chan, "Send", x.Value)}
		case *ast.AssignStmt:
			if len(x.Rhs) == 1 && len(x.Lhs) == 2 {
				if u, ok := isArrow(x.Rhs[0]); ok {
					x.Rhs[0] = method(u.X, "Recv2")
				}
			}
		case *ast.DeclStmt:
			if gd, ok := x.Decl.(*ast.GenDecl); ok {
				for _, sp := range gd.Specs {
					if vs, ok := sp.(*ast.ValueSpec); ok && len(vs.Names) == 2 && len(vs.Values) == 1 {
						if u, ok := isArrow(vs.Values[0]); ok {
							vs.Values[0] = method(u.X, "Recv2")
						}
					}
				}
			}
		case *ast.RangeStmt:
			if cr.info != nil && cr.info.rangeAt[cr.key(x.For)] {
				cr.n++
				ok := ast.NewIdent(fmt.Sprintf("vsim__ok%d", cr.n))
				var lhs0 ast.Expr = ast.NewIdent("_")
				tok := token.DEFINE
				if x.Key != nil {
					lhs0 = x.Key
					if x.Tok == token.ASSIGN {
						// v = ... with a fresh ok: declare ok first
						tok = token.ASSIGN
					}
				}
				var pre []ast.Stmt
				if tok == token.ASSIGN {
					pre = append(pre, &ast.DeclStmt{Decl: &ast.GenDecl{Tok: token.VAR, Specs: []ast.Spec{&ast.ValueSpec{Names: []*ast.Ident{ok}, Type: ast.NewIdent("bool")}}}})
				}
				pre = append(pre,
					&ast.AssignStmt{Lhs: []ast.Expr{lhs0, ok}, Tok: tok, Rhs: []ast.Expr{method(x.X, "Recv2")}},
					&ast.IfStmt{Cond: &ast.UnaryExpr{Op: token.NOT, X: ok}, Body: &ast.BlockStmt{List: []ast.Stmt{&ast.BranchStmt{Tok: token.BREAK}}}},
				)
				return &ast.ForStmt{For: x.For, Body: &ast.BlockStmt{List: append(pre, x.Body.List...)}}
			}
		case *ast.DeferStmt:
			// the call of a defer/go statement is not an expression slot
			x.Call = cr.builtinCall(x.Call)
		case *ast.GoStmt:
			x.Call = cr.builtinCall(x.Call)
		case *ast.SelectStmt:
			return cr.rewriteSelect(x, nil)
		case *ast.LabeledStmt:
			if sel, ok := x.Stmt.(*ast.SelectStmt); ok {
				return cr.rewriteSelect(sel, x.Label)
			}
		}
		return s
	}
	mapStmts(f, stmt)
	// 2. expressions
	mapExprs(f, func(e ast.Expr) ast.Expr {
		switch x := e.(type) {
		case *ast.UnaryExpr:
			if x.Op == token.ARROW {
				return method(x.X, "Recv")
			}
		case *ast.CallExpr:
			if id, ok := x.Fun.(*ast.Ident); ok {
				switch {
				case id.Name == "make" && len(x.Args) >= 1:
					// the ChanType argument was already rewritten to *vsim__.Chan[T] (bottom-up)
					if st, ok := x.Args[0].(*ast.StarExpr); ok {
						if ix, ok := st.X.(*ast.IndexExpr); ok {
							if se, ok := ix.X.(*ast.SelectorExpr); ok && se.Sel.Name == "Chan" {
								if xi, ok := se.X.(*ast.Ident); ok && xi.Name == "vsim__" {
									var n ast.Expr = &ast.BasicLit{Kind: token.INT, Value: "0"}
									if len(x.Args) > 1 {
										n = x.Args[1]
									}
									return &ast.CallExpr{Fun: &ast.IndexExpr{X: vsimSel("NewChan"), Index: ix.Index}, Args: []ast.Expr{n}}
								}
							}
						}
					}
				case id.Name == "close" && len(x.Args) == 1:
					return method(x.Args[0], "Close")
				case (id.Name == "len" || id.Name == "cap") && len(x.Args) == 1 && cr.info != nil && cr.info.lenCap[cr.key(x.Lparen)]:
					if id.Name == "len" {
						return method(x.Args[0], "Len")
					}
					return method(x.Args[0], "Cap")
				}
			}
		case *ast.ChanType:
			return chanTypeExpr(x.Value)
		}
		return e
	})
}

// builtinCall rewrites close(c) / len(c) / cap(c) when they are the call of a
// defer or go statement.
func (cr *chanRewriter) builtinCall(c *ast.CallExpr) *ast.CallExpr {
	if id, ok := c.Fun.(*ast.Ident); ok && len(c.Args) == 1 {
		switch {
		case id.Name == "close":
			return method(c.Args[0], "Close")
		case (id.Name == "len" || id.Name == "cap") && cr.info != nil && cr.info.lenCap[cr.key(c.Lparen)]:
			if id.Name == "len" {
				return method(c.Args[0], "Len")
			}
			return method(c.Args[0], "Cap")
		}
	}
	return c
}

func (cr *chanRewriter) rewriteSelect(sel *ast.SelectStmt, label *ast.Ident) ast.Stmt {
	cr.n++
	id := cr.n
	var decls []ast.Stmt
	var args []ast.Expr
	sw := &ast.SwitchStmt{Body: &ast.BlockStmt{}}
	hasDefault := "false"
	idx := 0
	for _, cl := range sel.Body.List {
		cc := cl.(*ast.CommClause)
		if cc.Comm == nil {
			hasDefault = "true"
			sw.Body.List = append(sw.Body.List, &ast.CaseClause{List: []ast.Expr{&ast.UnaryExpr{Op: token.SUB, X: &ast.BasicLit{Kind: token.INT, Value: "1"}}}, Body: cc.Body})
			continue
		}
		name := ast.NewIdent(fmt.Sprintf("vsim__c%d_%d", id, idx))
		var body []ast.Stmt
		switch c := cc.Comm.(type) {
		case *ast.SendStmt:
			decls = append(decls, &ast.AssignStmt{Lhs: []ast.Expr{name}, Tok: token.DEFINE, Rhs: []ast.Expr{&ast.CallExpr{Fun: vsimSel("SendCase"), Args: []ast.Expr{c.Chan, c.Value}}}})
		case *ast.ExprStmt: // case <-c:
			u, _ := isArrow(c.X)
			decls = append(decls, &ast.AssignStmt{Lhs: []ast.Expr{name}, Tok: token.DEFINE, Rhs: []ast.Expr{&ast.CallExpr{Fun: vsimSel("RecvCase"), Args: []ast.Expr{u.X}}}})
		case *ast.AssignStmt: // case v[, ok] (:= | =) <-c:
			u, _ := isArrow(c.Rhs[0])
			decls = append(decls, &ast.AssignStmt{Lhs: []ast.Expr{name}, Tok: token.DEFINE, Rhs: []ast.Expr{&ast.CallExpr{Fun: vsimSel("RecvCase"), Args: []ast.Expr{u.X}}}})
			fn := "RecvValue"
			if len(c.Lhs) == 2 {
				fn = "RecvResult"
			}
			body = append(body, &ast.AssignStmt{Lhs: c.Lhs, Tok: c.Tok, Rhs: []ast.Expr{&ast.CallExpr{Fun: vsimSel(fn), Args: []ast.Expr{name}}}})
			if c.Tok == token.DEFINE {
				var blanks []ast.Expr
				var uses []ast.Expr
				for _, l := range c.Lhs {
					if li, ok := l.(*ast.Ident); ok && li.Name != "_" {
						blanks = append(blanks, ast.NewIdent("_"))
						uses = append(uses, ast.NewIdent(li.Name))
					}
				}
				if len(uses) > 0 {
					body = append(body, &ast.AssignStmt{Lhs: blanks, Tok: token.ASSIGN, Rhs: uses})
				}
			}
		}
		args = append(args, name)
		sw.Body.List = append(sw.Body.List, &ast.CaseClause{List: []ast.Expr{&ast.BasicLit{Kind: token.INT, Value: fmt.Sprint(idx)}}, Body: append(body, cc.Body...)})
		idx++
	}
	sw.Tag = &ast.CallExpr{Fun: vsimSel("Select"), Args: append([]ast.Expr{ast.NewIdent(hasDefault)}, args...)}
	var swStmt ast.Stmt = sw
	if label != nil {
		swStmt = &ast.LabeledStmt{Label: label, Stmt: sw}
	}
	return &ast.BlockStmt{List: append(decls, swStmt)}
}
