package main

// API discovery: the harness knows the API of the pinned tree (ParseVector,
// Vector, Get, Set, the scores, Nomenclature, Rating). A changed tree may
// export more. Exported functions and methods of the four packages that the
// harness does not know, and whose parameters are strings, numbers or
// booleans, get a generated wrapper (verifsim/worker/extra_api.go), so that
// histories can call them too - and scribble over what they return, as a
// caller is free to do with a slice, map or object it was handed.

import (
	"bytes"
	"fmt"
	"go/types"
	"sort"
	"strings"
)

var knownAPI = map[string]bool{
	"ParseVector": true, "Rating": true,
	"Vector": true, "Get": true, "Set": true, "BaseScore": true, "TemporalScore": true, "EnvironmentalScore": true,
	"Impact": true, "Exploitability": true, "Score": true, "Nomenclature": true, "Error": true,
}

var mainType = map[string]string{"20": "CVSS20", "30": "CVSS30", "31": "CVSS31", "40": "CVSS40"}

// objParam: a parameter of the version's own object type (T or *T).
func objParam(t types.Type, d string) (ptr, ok bool) {
	if p, isPtr := t.(*types.Pointer); isPtr {
		t, ptr = p.Elem(), true
	}
	n, isNamed := t.(*types.Named)
	if !isNamed || n.Obj().Pkg() == nil || n.Obj().Name() != mainType[d] || !strings.HasSuffix(n.Obj().Pkg().Path(), "/"+d) {
		return false, false
	}
	return ptr, true
}

// typeExpr prints a type as the generated file can name it: basic types, error,
// exported named types of the four packages (import recorded in need), and
// pointers, slices and plain function types over those. Anything else (types
// of other packages, unexported types, maps, channels, structs) is refused.
func typeExpr(t types.Type, need map[string]bool) (string, bool) {
	switch x := t.(type) {
	case *types.Basic:
		if x.Info()&types.IsUntyped != 0 || x.Kind() == types.UnsafePointer || x.Kind() == types.Invalid {
			return "", false
		}
		return x.Name(), true
	case *types.Named:
		o := x.Obj()
		if x.TypeArgs() != nil && x.TypeArgs().Len() > 0 {
			return "", false
		}
		if o.Pkg() == nil {
			return o.Name(), true // error
		}
		for d := range mainType {
			if o.Pkg().Path() == modPath+"/"+d && o.Exported() {
				need[d] = true
				return "gocvss" + d + "." + o.Name(), true
			}
		}
		return "", false
	case *types.Pointer:
		e, ok := typeExpr(x.Elem(), need)
		return "*" + e, ok
	case *types.Slice:
		e, ok := typeExpr(x.Elem(), need)
		return "[]" + e, ok
	case *types.Signature:
		if x.Variadic() || x.TypeParams() != nil || x.Recv() != nil {
			return "", false
		}
		var ps, rs []string
		for i := 0; i < x.Params().Len(); i++ {
			e, ok := typeExpr(x.Params().At(i).Type(), need)
			if !ok {
				return "", false
			}
			ps = append(ps, e)
		}
		for i := 0; i < x.Results().Len(); i++ {
			e, ok := typeExpr(x.Results().At(i).Type(), need)
			if !ok {
				return "", false
			}
			rs = append(rs, e)
		}
		out := "func(" + strings.Join(ps, ", ") + ")"
		if len(rs) > 0 {
			out += " (" + strings.Join(rs, ", ") + ")"
		}
		return out, true
	}
	return "", false
}

// basicConv returns the Go expression that turns the textual argument into a
// value of type t, and the kind the plan generator knows it by.
func basicConv(t types.Type, arg string, need map[string]bool) (expr, kind string, ok bool) {
	if it, isI := t.Underlying().(*types.Interface); isI && it.Empty() {
		return "extraAny(&in, " + arg + ")", "any", true // string, caller-owned []byte, number or nil
	}
	if sl, isS := t.Underlying().(*types.Slice); isS {
		if eb, isB := sl.Elem().Underlying().(*types.Basic); isB && eb.Kind() == types.Byte {
			if _, plain := sl.Elem().(*types.Basic); plain {
				return "extraBytes(&in, " + arg + ")", "bytes", true // a fresh buffer owned by the caller
			}
		}
		if eb, isB := sl.Elem().(*types.Basic); isB && eb.Kind() == types.String {
			return "extraStrs(" + arg + ")", "strs", true // a batch
		}
		return "", "", false
	}
	if sig, isF := t.Underlying().(*types.Signature); isF {
		// a callback: nil, or a function that does nothing and returns zero values
		tn, ok := typeExpr(t, need)
		if !ok {
			return "", "", false
		}
		var ps, rs []string
		for i := 0; i < sig.Params().Len(); i++ {
			e, ok := typeExpr(sig.Params().At(i).Type(), need)
			if !ok {
				return "", "", false
			}
			ps = append(ps, "_ "+e)
		}
		for i := 0; i < sig.Results().Len(); i++ {
			e, ok := typeExpr(sig.Results().At(i).Type(), need)
			if !ok {
				return "", "", false
			}
			rs = append(rs, fmt.Sprintf("r%d %s", i, e))
		}
		lit := "func(" + strings.Join(ps, ", ") + ")"
		if len(rs) > 0 {
			lit += " (" + strings.Join(rs, ", ") + ")"
		}
		lit += " { return }"
		return fmt.Sprintf("func() %s { if %s == \"nil\" { return nil }; return (%s)(%s) }()", tn, arg, tn, lit), "func", true
	}
	{
		// an options struct of the library (by value or by pointer): filled from
		// a JSON object over its exported fields of basic types
		st, ptr := t, false
		if p, isP := t.(*types.Pointer); isP {
			st, ptr = p.Elem(), true
		}
		if n, isN := st.(*types.Named); isN {
			if sx, isS := n.Underlying().(*types.Struct); isS {
				tn, ok := typeExpr(n, need)
				if !ok {
					return "", "", false
				}
				var fields []string
				for i := 0; i < sx.NumFields(); i++ {
					fl := sx.Field(i)
					fb, isB := fl.Type().Underlying().(*types.Basic)
					if !fl.Exported() || !isB || fl.Embedded() {
						continue
					}
					switch {
					case fb.Kind() == types.String:
						fields = append(fields, fl.Name()+"=string")
					case fb.Kind() == types.Bool:
						fields = append(fields, fl.Name()+"=bool")
					case fb.Info()&types.IsInteger != 0:
						fields = append(fields, fl.Name()+"=int")
					case fb.Info()&types.IsFloat != 0:
						fields = append(fields, fl.Name()+"=float")
					}
				}
				if ptr {
					return fmt.Sprintf("extraJSONPtr[%s](%s)", tn, arg), "json:" + strings.Join(fields, ","), true
				}
				return fmt.Sprintf("extraJSON[%s](%s)", tn, arg), "json:" + strings.Join(fields, ","), true
			}
		}
	}
	b, isB := t.Underlying().(*types.Basic)
	if !isB {
		return "", "", false
	}
	tn, ok := typeExpr(t, need)
	if !ok {
		return "", "", false
	}
	switch {
	case b.Kind() == types.String:
		return fmt.Sprintf("%s(%s)", tn, arg), "string", true
	case b.Kind() == types.Bool:
		return fmt.Sprintf("%s(%s == \"true\")", tn, arg), "bool", true
	case b.Info()&types.IsInteger != 0:
		return fmt.Sprintf("%s(extraInt(%s))", tn, arg), "int", true
	case b.Info()&types.IsFloat != 0:
		return fmt.Sprintf("%s(extraFloat(%s))", tn, arg), "float", true
	}
	return "", "", false
}

// poolType: an exported named type of the four packages that is neither one of
// the object types nor an error type nor a plain basic type: values of such
// types can only come out of the library (a Parser, an Option, an Editor) and
// are carried from one call of a task to its later calls.
func poolType(t types.Type, need map[string]bool) (key string, ok bool) {
	inner := t
	if p, isP := t.(*types.Pointer); isP {
		inner = p.Elem()
	}
	n, isN := inner.(*types.Named)
	if !isN || n.Obj().Pkg() == nil || !n.Obj().Exported() {
		return "", false
	}
	if n.TypeArgs() != nil && n.TypeArgs().Len() > 0 {
		return "", false
	}
	dir := ""
	for d := range mainType {
		if n.Obj().Pkg().Path() == modPath+"/"+d {
			dir = d
		}
	}
	if dir == "" || n.Obj().Name() == mainType[dir] {
		return "", false
	}
	if _, isB := n.Underlying().(*types.Basic); isB {
		return "", false
	}
	if _, isI := n.Underlying().(*types.Interface); isI {
		return "", false
	}
	if types.Implements(n, errorIface) || types.Implements(types.NewPointer(n), errorIface) {
		return "", false
	}
	if st, isS := n.Underlying().(*types.Struct); isS && inner == t {
		// option structs with exported basic fields are made from JSON instead
		for i := 0; i < st.NumFields(); i++ {
			if st.Field(i).Exported() {
				return "", false
			}
		}
	}
	e, ok := typeExpr(t, need)
	return e, ok
}

var errorIface = types.Universe.Lookup("error").Type().Underlying().(*types.Interface)

// genExtraAPI returns the source of verifsim/worker/extra_api.go.
func genExtraAPI(pkgs map[string]*types.Package) (string, int) {
	var body bytes.Buffer
	imports := map[string]bool{}
	poolKeys := map[string]bool{}
	n := 0
	var dirs []string
	for d := range mainType {
		dirs = append(dirs, d)
	}
	sort.Strings(dirs)
	for _, d := range dirs {
		pkg := pkgs[modPath+"/"+d]
		if pkg == nil {
			continue
		}
		alias := "gocvss" + d
		emit := func(fn *types.Func, recv string) {
			sig := fn.Type().(*types.Signature)
			if sig.TypeParams() != nil {
				return
			}
			var args, kinds []string
			need := map[string]bool{}
			nObj, nPool := 0, 0
			name := fn.Name()
			if recv == "pool" {
				// a method of a pool type: the receiver comes out of the pool
				key, ok := poolType(sig.Recv().Type(), need)
				if !ok {
					return
				}
				kinds = append(kinds, "pool:"+key)
				nPool++
				inner := sig.Recv().Type()
				if p, isP := inner.(*types.Pointer); isP {
					inner = p.Elem()
				}
				name = inner.(*types.Named).Obj().Name() + "." + fn.Name()
			}
			variadicPool := ""
			if sig.Variadic() {
				// ...string (a few strings, spread) or ...<pool type>
				last := sig.Params().At(sig.Params().Len() - 1).Type()
				sl, isS := last.(*types.Slice)
				if !isS {
					return
				}
				if eb, isB := sl.Elem().(*types.Basic); !isB || eb.Kind() != types.String {
					key, ok := poolType(sl.Elem(), need)
					if !ok {
						return
					}
					variadicPool = key
				}
			}
			for i := 0; i < sig.Params().Len(); i++ {
				if variadicPool != "" && i == sig.Params().Len()-1 {
					args = append(args, fmt.Sprintf("poolSlice[%s](pv[%d:])...", variadicPool, nPool))
					kinds = append(kinds, "vpool:"+variadicPool)
					continue
				}
				if _, isF := sig.Params().At(i).Type().Underlying().(*types.Signature); isF {
					// a callback type the generated file can write a function for
					// is not taken from the pool
					if _, _, ok := basicConv(sig.Params().At(i).Type(), "x", map[string]bool{}); ok {
						goto plain
					}
				}
				if key, ok := poolType(sig.Params().At(i).Type(), need); ok {
					args = append(args, fmt.Sprintf("pv[%d].(%s)", nPool, key))
					kinds = append(kinds, "pool:"+key)
					nPool++
					continue
				}
				if ptr, ok := objParam(sig.Params().At(i).Type(), d); ok {
					if ptr {
						args = append(args, fmt.Sprintf("(*%s.%s)(objs[%d])", alias, mainType[d], nObj))
						kinds = append(kinds, "objptr")
					} else {
						args = append(args, fmt.Sprintf("*(*%s.%s)(objs[%d])", alias, mainType[d], nObj))
						kinds = append(kinds, "obj")
					}
					nObj++
					continue
				}
			plain:
				c, kind, ok := basicConv(sig.Params().At(i).Type(), fmt.Sprintf("a[%d]", len(kinds)), need)
				if !ok {
					return
				}
				if sig.Variadic() && i == sig.Params().Len()-1 {
					c, kind = c+"...", "vstrs"
				}
				args = append(args, c)
				kinds = append(kinds, kind)
			}
			var res []string
			for i := 0; i < sig.Results().Len(); i++ {
				res = append(res, fmt.Sprintf("r%d", i))
			}
			call := alias + "." + fn.Name()
			recvKind := 0
			switch recv {
			case "pool":
				call = fmt.Sprintf("pv[0].(%s).%s", strings.TrimPrefix(kinds[0], "pool:"), fn.Name())
			case "ptr":
				call = fmt.Sprintf("(*%s.%s)(obj).%s", alias, mainType[d], fn.Name())
				recvKind = 1
			case "val":
				call = fmt.Sprintf("(*(*%s.%s)(obj)).%s", alias, mainType[d], fn.Name())
				recvKind = 1
			}
			imports[d] = true
			for k := range need {
				imports[k] = true
			}
			for _, k := range kinds {
				if strings.HasPrefix(k, "pool:") {
					poolKeys[k[5:]] = true
				} else if strings.HasPrefix(k, "vpool:") {
					poolKeys[k[6:]] = true
				}
			}
			n++
			fmt.Fprintf(&body, "\textraAPI = append(extraAPI, extraFn{Ver: %s, Name: %q, Recv: %d, Params: %#v, Call: func(obj unsafe.Pointer, a []string, objs []unsafe.Pointer, pv []any) ([]any, [][]byte) {\n\t\tvar in [][]byte\n", d, name, recvKind, kinds)
			if len(res) > 0 {
				fmt.Fprintf(&body, "\t\t%s := %s(%s)\n\t\treturn []any{%s}, in\n", strings.Join(res, ", "), call, strings.Join(args, ", "), strings.Join(res, ", "))
			} else {
				fmt.Fprintf(&body, "\t\t%s(%s)\n\t\treturn nil, in\n", call, strings.Join(args, ", "))
			}
			body.WriteString("\t}})\n")
		}
		sc := pkg.Scope()
		for _, name := range sc.Names() {
			obj := sc.Lookup(name)
			if !obj.Exported() {
				continue
			}
			switch o := obj.(type) {
			case *types.Func:
				if !knownAPI[name] {
					emit(o, "")
				}
			case *types.TypeName:
				if name != mainType[d] {
					if _, ok := poolType(o.Type(), map[string]bool{}); ok {
						if named, isN := o.Type().(*types.Named); isN {
							for i := 0; i < named.NumMethods(); i++ {
								if m := named.Method(i); m.Exported() {
									emit(m, "pool")
								}
							}
						}
					}
					continue
				}
				named, ok := o.Type().(*types.Named)
				if !ok {
					continue
				}
				for i := 0; i < named.NumMethods(); i++ {
					m := named.Method(i)
					if !m.Exported() || knownAPI[m.Name()] {
						continue
					}
					recv := "val"
					if _, isPtr := m.Type().(*types.Signature).Recv().Type().(*types.Pointer); isPtr {
						recv = "ptr"
					}
					emit(m, recv)
				}
			}
		}
	}
	var out bytes.Buffer
	out.WriteString("package main\n\n// Generated by simcheck: wrappers for exported API the harness does not know.\n\n")
	if n > 0 {
		out.WriteString("import (\n\t\"unsafe\"\n\n")
		for _, d := range dirs {
			if imports[d] {
				fmt.Fprintf(&out, "\tgocvss%s %q\n", d, modPath+"/"+d)
			}
		}
		out.WriteString(")\n\nfunc init() {\n")
		var pk []string
		for k := range poolKeys {
			pk = append(pk, k)
		}
		sort.Strings(pk)
		for _, k := range pk {
			fmt.Fprintf(&out, "\textraPoolTypes = append(extraPoolTypes, %q)\n", k)
		}
		out.Write(body.Bytes())
		out.WriteString("}\n")
	}
	return out.String(), n
}
