package main

// API discovery: the harness knows the API of the pinned tree (ParseVector,
// Vector, Get, Set, the scores, Nomenclature, Rating). A changed tree may
// export more. Exported functions and methods of the four packages that the
// harness does not know, and whose parameters are strings, numbers or
// booleans, get a generated wrapper (verifsim/worker/extra_api.go), so that
// histories can call them too - and scribble over what they return, as a
// caller is free to do with a slice, map or object it was handed.

import (
	"bytes"
	"fmt"
	"go/types"
	"sort"
	"strings"
)

var knownAPI = map[string]bool{
	"ParseVector": true, "Rating": true,
	"Vector": true, "Get": true, "Set": true, "BaseScore": true, "TemporalScore": true, "EnvironmentalScore": true,
	"Impact": true, "Exploitability": true, "Score": true, "Nomenclature": true, "Error": true,
}

var mainType = map[string]string{"20": "CVSS20", "30": "CVSS30", "31": "CVSS31", "40": "CVSS40"}

// objParam: a parameter of the version's own object type (T or *T).
func objParam(t types.Type, d string) (ptr, ok bool) {
	if p, isPtr := t.(*types.Pointer); isPtr {
		t, ptr = p.Elem(), true
	}
	n, isNamed := t.(*types.Named)
	if !isNamed || n.Obj().Pkg() == nil || n.Obj().Name() != mainType[d] || !strings.HasSuffix(n.Obj().Pkg().Path(), "/"+d) {
		return false, false
	}
	return ptr, true
}

func basicConv(t types.Type, arg string) (string, bool) {
	if it, ok := t.Underlying().(*types.Interface); ok && it.Empty() {
		return "extraAny(&in, " + arg + ")", true // string, caller-owned []byte, number or nil
	}
	if sl, ok := t.Underlying().(*types.Slice); ok {
		if eb, ok := sl.Elem().Underlying().(*types.Basic); ok && eb.Kind() == types.Byte {
			return "extraBytes(&in, " + arg + ")", true // a fresh buffer owned by the caller
		}
		if eb, ok := sl.Elem().(*types.Basic); ok && eb.Kind() == types.String {
			if _, plain := t.(*types.Slice); plain {
				return "extraStrs(" + arg + ")", true // a batch
			}
		}
		return "", false
	}
	b, ok := t.Underlying().(*types.Basic)
	if !ok {
		return "", false
	}
	tn := types.TypeString(t, func(p *types.Package) string { return "gocvss" + p.Name()[len(p.Name())-2:] })
	switch {
	case b.Kind() == types.String:
		return fmt.Sprintf("%s(%s)", tn, arg), true
	case b.Kind() == types.Bool:
		return fmt.Sprintf("%s(%s == \"true\")", tn, arg), true
	case b.Info()&types.IsInteger != 0:
		return fmt.Sprintf("%s(extraInt(%s))", tn, arg), true
	case b.Info()&types.IsFloat != 0:
		return fmt.Sprintf("%s(extraFloat(%s))", tn, arg), true
	}
	return "", false
}

// genExtraAPI returns the source of verifsim/worker/extra_api.go.
func genExtraAPI(pkgs map[string]*types.Package) (string, int) {
	var body bytes.Buffer
	imports := map[string]bool{}
	n := 0
	var dirs []string
	for d := range mainType {
		dirs = append(dirs, d)
	}
	sort.Strings(dirs)
	for _, d := range dirs {
		pkg := pkgs[modPath+"/"+d]
		if pkg == nil {
			continue
		}
		alias := "gocvss" + d
		emit := func(fn *types.Func, recv string) {
			sig := fn.Type().(*types.Signature)
			if sig.Variadic() || sig.TypeParams() != nil {
				return
			}
			var args, kinds []string
			nObj := 0
			for i := 0; i < sig.Params().Len(); i++ {
				if ptr, ok := objParam(sig.Params().At(i).Type(), d); ok {
					if ptr {
						args = append(args, fmt.Sprintf("(*%s.%s)(objs[%d])", alias, mainType[d], nObj))
						kinds = append(kinds, "objptr")
					} else {
						args = append(args, fmt.Sprintf("*(*%s.%s)(objs[%d])", alias, mainType[d], nObj))
						kinds = append(kinds, "obj")
					}
					nObj++
					continue
				}
				c, ok := basicConv(sig.Params().At(i).Type(), fmt.Sprintf("a[%d]", i))
				if !ok {
					return
				}
				args = append(args, c)
				b, isBasic := sig.Params().At(i).Type().Underlying().(*types.Basic)
				if _, isIface := sig.Params().At(i).Type().Underlying().(*types.Interface); isIface {
					kinds = append(kinds, "any")
					continue
				}
				if !isBasic {
					if strings.HasPrefix(c, "extraStrs(") {
						kinds = append(kinds, "strs")
					} else {
						kinds = append(kinds, "bytes")
					}
					continue
				}
				switch {
				case b.Kind() == types.String:
					kinds = append(kinds, "string")
				case b.Kind() == types.Bool:
					kinds = append(kinds, "bool")
				case b.Info()&types.IsFloat != 0:
					kinds = append(kinds, "float")
				default:
					kinds = append(kinds, "int")
				}
			}
			var res []string
			for i := 0; i < sig.Results().Len(); i++ {
				res = append(res, fmt.Sprintf("r%d", i))
			}
			call := alias + "." + fn.Name()
			recvKind := 0
			switch recv {
			case "ptr":
				call = fmt.Sprintf("(*%s.%s)(obj).%s", alias, mainType[d], fn.Name())
				recvKind = 1
			case "val":
				call = fmt.Sprintf("(*(*%s.%s)(obj)).%s", alias, mainType[d], fn.Name())
				recvKind = 1
			}
			imports[d] = true
			n++
			fmt.Fprintf(&body, "\textraAPI = append(extraAPI, extraFn{Ver: %s, Name: %q, Recv: %d, Params: %#v, Call: func(obj unsafe.Pointer, a []string, objs []unsafe.Pointer) ([]any, [][]byte) {\n\t\tvar in [][]byte\n", d, fn.Name(), recvKind, kinds)
			if len(res) > 0 {
				fmt.Fprintf(&body, "\t\t%s := %s(%s)\n\t\treturn []any{%s}, in\n", strings.Join(res, ", "), call, strings.Join(args, ", "), strings.Join(res, ", "))
			} else {
				fmt.Fprintf(&body, "\t\t%s(%s)\n\t\treturn nil, in\n", call, strings.Join(args, ", "))
			}
			body.WriteString("\t}})\n")
		}
		sc := pkg.Scope()
		for _, name := range sc.Names() {
			obj := sc.Lookup(name)
			if !obj.Exported() {
				continue
			}
			switch o := obj.(type) {
			case *types.Func:
				if !knownAPI[name] {
					emit(o, "")
				}
			case *types.TypeName:
				if name != mainType[d] {
					continue
				}
				named, ok := o.Type().(*types.Named)
				if !ok {
					continue
				}
				for i := 0; i < named.NumMethods(); i++ {
					m := named.Method(i)
					if !m.Exported() || knownAPI[m.Name()] {
						continue
					}
					recv := "val"
					if _, isPtr := m.Type().(*types.Signature).Recv().Type().(*types.Pointer); isPtr {
						recv = "ptr"
					}
					emit(m, recv)
				}
			}
		}
	}
	var out bytes.Buffer
	out.WriteString("package main\n\n// Generated by simcheck: wrappers for exported API the harness does not know.\n\n")
	if n > 0 {
		out.WriteString("import (\n\t\"unsafe\"\n\n")
		for _, d := range dirs {
			if imports[d] {
				fmt.Fprintf(&out, "\tgocvss%s %q\n", d, modPath+"/"+d)
			}
		}
		out.WriteString(")\n\nfunc init() {\n")
		out.Write(body.Bytes())
		out.WriteString("}\n")
	}
	return out.String(), n
}
