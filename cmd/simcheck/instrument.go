package main

// Instrumenter: copies the non-test Go sources of the root module of /repo
// into a scratch directory and rewrites them so that they run under cvss-sim.
//
//   seam 1: import "sync"  ->  import sync "<mod>/verifsim/sync"
//           (also "time" and "math/rand" when a changed library uses them)
//   seam 2: vsim__.Point(id) before every statement and at the top of every
//           loop body
//   seam 3: `go f(x)` -> vsim__.Go(func(){ f(x) })  (a changed library that
//           starts goroutines still runs under the scheduler)
//
// Constructs the simulator cannot own are reported as UNSUPPORTED (exit 2 by
// the caller, never a VIOLATION).

import (
	"bytes"
	"crypto/sha256"
	"fmt"
	"go/ast"
	gobuild "go/build"
	"go/parser"
	"go/printer"
	"go/token"
	"os"
	"path/filepath"
	"regexp"
	"sort"
	"strconv"
	"strings"
)

const modPath = "github.com/pandatix/go-cvss"

// import paths that are swapped for simulated twins
var swapped = map[string]string{
	"sync":         modPath + "/verifsim/sync",
	"sync/atomic":  modPath + "/verifsim/atomic",
	"time":         modPath + "/verifsim/time",
	"runtime":      modPath + "/verifsim/runtime",
	"math/rand":    modPath + "/verifsim/rand",
	"math/rand/v2": modPath + "/verifsim/randv2",
	"os":           modPath + "/verifsim/os",
}

// imports library code may not use under the simulator
var refusedImports = map[string]string{
	"net":           "real sockets",
	"net/http":      "real sockets",
	"os/exec":       "processes",
	"os/signal":     "signals",
	"runtime/debug": "GC / runtime control",
	"crypto/rand":   "real randomness",
	"C":             "cgo",
	"syscall":       "system calls",
	"io/ioutil":     "files",
	"context":       "real timers / cancellation",
	"weak":          "GC-dependent behaviour",
	"unique":        "GC-dependent behaviour",
}

// contextTypesOnly: the file uses package context only for the Context type
// and the two root contexts, and never asks a context for its channel.
func contextTypesOnly(f *ast.File, is *ast.ImportSpec) bool {
	name := "context"
	if is.Name != nil {
		name = is.Name.Name
	}
	ok := true
	ast.Inspect(f, func(n ast.Node) bool {
		sel, isSel := n.(*ast.SelectorExpr)
		if !isSel {
			return true
		}
		if id, isID := sel.X.(*ast.Ident); isID && id.Name == name {
			switch sel.Sel.Name {
			case "Context", "Background", "TODO":
			default:
				ok = false
			}
		}
		if sel.Sel.Name == "Done" || sel.Sel.Name == "Deadline" {
			ok = false
		}
		return true
	})
	return ok
}

type instrResult struct {
	Files        []string          // relative paths written
	Points       int               // number of preemption points inserted
	PointSite    []string          // id -> "file:line"
	Unsupported  []string          // messages
	SrcHash      string            // sha256 over the original sources
	PkgDirs      []string          // package dirs relative to root
	PerFile      map[string]int    // points per file
	Swaps        map[string]int    // import path -> count
	GoStmts      int               // rewritten go statements
	ChanUse      []string          // informational
	Extra        map[string]string // reserved
	ChanFiles    int               // files whose channel operations were rewritten (seam 5)
	MapRanges    int               // rewritten range-over-map statements
	ExtraAPI     int               // exported functions/methods unknown to the harness that got a generated wrapper
	ExtraAPISrc  string            // source of verifsim/worker/extra_api.go
	MapRangeNote string            // why the map-range seam is off, if it is
}

type instrumenter struct {
	fset   *token.FileSet
	nextID int
	sites  []string
	res    *instrResult
	rel    string
}

func (in *instrumenter) pointStmt(pos token.Pos) ast.Stmt {
	id := in.nextID
	in.nextID++
	p := in.fset.Position(pos)
	in.sites = append(in.sites, fmt.Sprintf("%s:%d", in.rel, p.Line))
	return &ast.ExprStmt{X: &ast.CallExpr{
		Fun:  &ast.SelectorExpr{X: ast.NewIdent("vsim__"), Sel: ast.NewIdent("Point")},
		Args: []ast.Expr{&ast.BasicLit{Kind: token.INT, Value: strconv.Itoa(id)}},
	}}
}

func (in *instrumenter) rewriteList(list []ast.Stmt) []ast.Stmt {
	out := make([]ast.Stmt, 0, 2*len(list))
	for _, s := range list {
		pos := s.Pos()
		// a labelled statement keeps its label in front of the point:
		// L: stmt  ->  L: { } is not possible for loops (break/continue L),
		// so the point goes before the label instead.
		out = append(out, in.pointStmt(pos))
		out = append(out, s)
	}
	return out
}

func (in *instrumenter) unsupported(pos token.Pos, what string) {
	p := in.fset.Position(pos)
	in.res.Unsupported = append(in.res.Unsupported, fmt.Sprintf("%s:%d: %s", in.rel, p.Line, what))
}

// walk rewrites statement lists in place.
func (in *instrumenter) walk(n ast.Node) {
	ast.Inspect(n, func(n ast.Node) bool {
		switch x := n.(type) {
		case *ast.BlockStmt:
			// switch / select bodies hold clauses, not statements
			x.List = in.rewriteBlockList(x.List)
		case *ast.CaseClause:
			x.Body = in.rewriteList(x.Body)
		case *ast.CommClause:
			x.Body = in.rewriteList(x.Body)
		case *ast.ForStmt:
			in.loopTop(x.Body)
		case *ast.RangeStmt:
			in.loopTop(x.Body)
		}
		return true
	})
	// go statements: second pass (needs parent access to replace the node)
	ast.Inspect(n, func(n ast.Node) bool {
		switch x := n.(type) {
		case *ast.BlockStmt:
			in.rewriteGo(x.List)
		case *ast.CaseClause:
			in.rewriteGo(x.Body)
		case *ast.CommClause:
			in.rewriteGo(x.Body)
		case *ast.LabeledStmt:
			if g, ok := x.Stmt.(*ast.GoStmt); ok {
				x.Stmt = in.goToCall(g)
			}
		}
		return true
	})
}

func (in *instrumenter) goToCall(g *ast.GoStmt) ast.Stmt {
	in.res.GoStmts++
	// go f(a, b)  ->  { vsim__a0 := a; ...; vsim__.Go(func(){ f(vsim__a0, ...) }) }
	// Arguments (and the function value) of a go statement are evaluated
	// in the calling goroutine; keep that.
	var pre []ast.Stmt
	call := *g.Call
	args := make([]ast.Expr, len(call.Args))
	for i, a := range call.Args {
		name := fmt.Sprintf("vsim__a%d_%d", in.res.GoStmts, i)
		pre = append(pre, &ast.AssignStmt{Lhs: []ast.Expr{ast.NewIdent(name)}, Tok: token.DEFINE, Rhs: []ast.Expr{a}})
		args[i] = ast.NewIdent(name)
	}
	fun := call.Fun
	if _, isLit := fun.(*ast.FuncLit); !isLit {
		name := fmt.Sprintf("vsim__f%d", in.res.GoStmts)
		pre = append(pre, &ast.AssignStmt{Lhs: []ast.Expr{ast.NewIdent(name)}, Tok: token.DEFINE, Rhs: []ast.Expr{fun}})
		fun = ast.NewIdent(name)
	}
	inner := &ast.CallExpr{Fun: fun, Args: args, Ellipsis: call.Ellipsis}
	if call.Ellipsis != token.NoPos {
		inner.Ellipsis = 1
	}
	spawn := &ast.ExprStmt{X: &ast.CallExpr{
		Fun: &ast.SelectorExpr{X: ast.NewIdent("vsim__"), Sel: ast.NewIdent("Go")},
		Args: []ast.Expr{&ast.FuncLit{
			Type: &ast.FuncType{Params: &ast.FieldList{}},
			Body: &ast.BlockStmt{List: []ast.Stmt{&ast.ExprStmt{X: inner}}},
		}},
	}}
	return &ast.BlockStmt{List: append(pre, spawn)}
}

func (in *instrumenter) rewriteGo(list []ast.Stmt) {
	for i, s := range list {
		if g, ok := s.(*ast.GoStmt); ok {
			list[i] = in.goToCall(g)
		}
	}
}

func (in *instrumenter) rewriteBlockList(list []ast.Stmt) []ast.Stmt {
	if len(list) > 0 {
		switch list[0].(type) {
		case *ast.CaseClause, *ast.CommClause:
			return list
		}
	}
	return in.rewriteList(list)
}

// loopTop makes sure that even `for cond {}` passes a point per iteration.
// The body's own statements get their points from the BlockStmt visit, so
// only an empty body needs one here.
func (in *instrumenter) loopTop(b *ast.BlockStmt) {
	if b != nil && len(b.List) == 0 {
		b.List = []ast.Stmt{in.pointStmt(b.Pos())}
		// mark so that the later BlockStmt visit does not add another one:
		// harmless if it does (one more point).
	}
}

func isRootModuleDir(root, dir string) bool {
	if dir == root {
		return true
	}
	if _, err := os.Stat(filepath.Join(dir, "go.mod")); err == nil {
		return false
	}
	return true
}

// instrumentTree copies and rewrites. dst must exist and be empty of library code.
func instrumentTree(root, dst string, points bool) (*instrResult, error) {
	res := &instrResult{PerFile: map[string]int{}, Swaps: map[string]int{}}
	h := sha256.New()
	in := &instrumenter{fset: token.NewFileSet(), res: res}
	bctx := gobuild.Default
	bctx.BuildTags = nil
	bctx.CgoEnabled = false

	var files []string
	err := filepath.Walk(root, func(p string, fi os.FileInfo, err error) error {
		if err != nil {
			return err
		}
		name := fi.Name()
		if fi.IsDir() {
			if p != root && (strings.HasPrefix(name, ".") || strings.HasPrefix(name, "_") || name == "testdata" || name == "vendor" || name == "verifsim") {
				return filepath.SkipDir
			}
			if !isRootModuleDir(root, p) {
				return filepath.SkipDir
			}
			return nil
		}
		if !strings.HasSuffix(name, ".go") || strings.HasSuffix(name, "_test.go") {
			return nil
		}
		files = append(files, p)
		return nil
	})
	if err != nil {
		return nil, err
	}
	sort.Strings(files)
	// seam 4: which range statements iterate over maps? (go/types; optional)
	var mr mapRanges
	var facts *typeFacts
	{
		dirs := map[string]bool{}
		for _, p := range files {
			rel, _ := filepath.Rel(root, p)
			dirs[filepath.Dir(rel)] = true
		}
		var dl []string
		for d := range dirs {
			dl = append(dl, d)
		}
		found, err := findMapRanges(root, dl)
		if err != nil {
			res.MapRangeNote = "map-range seam off: " + err.Error()
		} else {
			mr = found.mapRange
			facts = found
		}
	}
	nMapRange := 0
	pkgDirs := map[string]bool{}
	for _, p := range files {
		rel, _ := filepath.Rel(root, p)
		dir := filepath.Dir(p)
		ok, err := bctx.MatchFile(dir, filepath.Base(p))
		if err != nil {
			return nil, fmt.Errorf("%s: %v", rel, err)
		}
		if !ok {
			continue // excluded by build constraints with no tags set
		}
		src, err := os.ReadFile(p)
		if err != nil {
			return nil, err
		}
		h.Write([]byte(rel))
		h.Write([]byte{0})
		h.Write(src)
		in.rel = rel
		f, err := parser.ParseFile(in.fset, p, src, parser.ParseComments)
		if err != nil {
			return nil, fmt.Errorf("parse %s: %v", rel, err)
		}
		if f.Name.Name == "main" {
			continue // commands are not part of the library
		}
		// directives the rewrite cannot preserve
		for _, cg := range f.Comments {
			for _, c := range cg.List {
				if strings.HasPrefix(c.Text, "//go:embed") || strings.HasPrefix(c.Text, "//go:linkname") {
					in.unsupported(c.Pos(), "compiler directive "+strings.Fields(c.Text)[0])
				}
			}
		}
		f.Comments = nil
		f.Doc = nil
		ast.Inspect(f, func(n ast.Node) bool {
			switch x := n.(type) {
			case *ast.FuncDecl:
				x.Doc = directivesOnly(x.Doc) // //go:nocheckptr, //go:noinline ... stay in force
			case *ast.GenDecl:
				x.Doc = nil
			case *ast.Field:
				x.Doc, x.Comment = nil, nil
			case *ast.ValueSpec:
				x.Doc, x.Comment = nil, nil
			case *ast.TypeSpec:
				x.Doc, x.Comment = nil, nil
			case *ast.ImportSpec:
				x.Doc, x.Comment = nil, nil
			}
			return true
		})
		// imports
		for _, is := range f.Imports {
			path, _ := strconv.Unquote(is.Path.Value)
			if why, bad := refusedImports[path]; bad {
				if path == "context" && contextTypesOnly(f, is) {
					continue // context.Context in a signature, Background(), TODO(): no timers, no channels
				}
				in.unsupported(is.Pos(), fmt.Sprintf("import %q (%s is outside the simulator)", path, why))
			}
			if to, ok := swapped[path]; ok {
				if is.Name == nil {
					// keep the package identifier the file already uses
					name := filepath.Base(path)
					if path == "math/rand/v2" {
						name = "rand"
					}
					is.Name = ast.NewIdent(name)
				}
				is.Path.Value = strconv.Quote(to)
				res.Swaps[path]++
			}
		}
		chanUsed := usesChannels(f) || (facts != nil && facts.mentions(p))
		if chanUsed {
			if facts == nil {
				in.unsupported(f.Pos(), "channels need the type-checking pass, which failed: "+res.MapRangeNote)
			} else {
				cr := &chanRewriter{in: in, info: &chanInfo{rangeAt: facts.chanRange, lenCap: facts.chanLenCap}, n: res.ChanFiles * 1000}
				cr.rewriteFile(f)
				res.ChanFiles++
			}
		}
		before := in.nextID
		goBefore := res.GoStmts
		mrBefore := nMapRange
		if mr != nil {
			ast.Inspect(f, func(n ast.Node) bool {
				if rs, ok := n.(*ast.RangeStmt); ok {
					pos := in.fset.Position(rs.For)
					if mr[fmt.Sprintf("%s:%d", pos.Filename, pos.Offset)] {
						nMapRange++
						rewriteMapRange(rs, nMapRange)
					}
				}
				return true
			})
		}
		if points {
			for _, d := range f.Decls {
				switch x := d.(type) {
				case *ast.FuncDecl:
					if x.Body != nil {
						in.walk(x.Body)
					}
				case *ast.GenDecl:
					// function literals in package-level initialisers
					ast.Inspect(x, func(n ast.Node) bool {
						if fl, ok := n.(*ast.FuncLit); ok {
							in.walk(fl.Body)
							return false
						}
						return true
					})
				}
			}
		}
		needRT := in.nextID > before || res.GoStmts > goBefore || nMapRange > mrBefore || chanUsed
		if needRT {
			// add the runtime import
			spec := &ast.ImportSpec{Name: ast.NewIdent("vsim__"), Path: &ast.BasicLit{Kind: token.STRING, Value: strconv.Quote(modPath + "/verifsim/rt")}}
			gd := &ast.GenDecl{Tok: token.IMPORT, Specs: []ast.Spec{spec}}
			f.Decls = append([]ast.Decl{gd}, f.Decls...)
			f.Imports = append(f.Imports, spec)
		}
		res.PerFile[rel] = in.nextID - before
		var buf bytes.Buffer
		cfg := printer.Config{Mode: printer.UseSpaces | printer.TabIndent, Tabwidth: 8}
		// positions of the original nodes are kept; new nodes have NoPos,
		// which go/printer handles. A fresh FileSet avoids stale line info
		// forcing odd layouts.
		if err := cfg.Fprint(&buf, in.fset, f); err != nil {
			return nil, fmt.Errorf("print %s: %v", rel, err)
		}
		out := filepath.Join(dst, rel)
		if err := os.MkdirAll(filepath.Dir(out), 0o755); err != nil {
			return nil, err
		}
		// //line directives after every point: stack traces, race reports and
		// panics then name the file and line of the ORIGINAL source
		text := withLineDirectives(buf.Bytes(), in.sites, filepath.Join(root, rel))
		if err := os.WriteFile(out, text, 0o644); err != nil {
			return nil, err
		}
		res.Files = append(res.Files, rel)
		pkgDirs[filepath.Dir(rel)] = true
	}
	res.ExtraAPISrc = "package main\n"
	if facts != nil {
		res.ExtraAPISrc, res.ExtraAPI = genExtraAPI(facts.pkgs)
	}
	res.Points = in.nextID
	res.MapRanges = nMapRange
	res.PointSite = in.sites
	res.SrcHash = fmt.Sprintf("%x", h.Sum(nil))
	for d := range pkgDirs {
		res.PkgDirs = append(res.PkgDirs, d)
	}
	sort.Strings(res.PkgDirs)
	return res, nil
}

var pointLine = regexp.MustCompile(`^\s*vsim__\.Point\((\d+)\)\s*$`)

func withLineDirectives(src []byte, sites []string, origPath string) []byte {
	var out bytes.Buffer
	pending := ""
	for _, l := range strings.SplitAfter(string(src), "\n") {
		if pending != "" && strings.TrimSpace(l) != "" {
			// directly in front of the statement (the printer may have put
			// blank lines between the point and the statement)
			out.WriteString(pending)
			pending = ""
		}
		out.WriteString(l)
		m := pointLine.FindStringSubmatch(strings.TrimRight(l, "\n"))
		if m == nil {
			continue
		}
		id, err := strconv.Atoi(m[1])
		if err != nil || id >= len(sites) {
			continue
		}
		if i := strings.LastIndexByte(sites[id], ':'); i >= 0 && sites[id][i+1:] != "0" {
			pending = fmt.Sprintf("//line %s:%s\n", origPath, sites[id][i+1:])
		}
	}
	return out.Bytes()
}

// directivesOnly keeps the compiler directives of a doc comment.
func directivesOnly(cg *ast.CommentGroup) *ast.CommentGroup {
	if cg == nil {
		return nil
	}
	var keep []*ast.Comment
	for _, c := range cg.List {
		if strings.HasPrefix(c.Text, "//go:") && !strings.HasPrefix(c.Text, "//go:embed") && !strings.HasPrefix(c.Text, "//go:linkname") && !strings.HasPrefix(c.Text, "//go:build") && !strings.HasPrefix(c.Text, "//go:generate") {
			keep = append(keep, c)
		}
	}
	if len(keep) == 0 {
		return nil
	}
	return &ast.CommentGroup{List: keep}
}
