// Command simcheck is the cvss-sim orchestrator: it rebuilds the instrumented
// library copy from /repo's working tree, runs seeded simulation workers,
// minimises and replays failures, and writes the evidence files.
//
//	simcheck run --property C14 --tier quick|thorough
//	simcheck replay <file>
//	simcheck build --keep            (development: leaves the scratch tree)
//	simcheck selftest                (determinism self-test only)
//
// Exit codes: 0 property held on everything explored (or only known
// findings); 1 violation (a line "VIOLATION property=<id> replay=<path>" is
// printed); 2 the check could not decide (build failure, unsupported
// construct, watchdog, harness nondeterminism) - never reported as violation.
package main

import (
	"bufio"
	"bytes"
	"context"
	"encoding/binary"
	"encoding/json"
	"flag"
	"fmt"
	"os"
	"os/exec"
	"os/signal"
	"path/filepath"
	"runtime"
	"sort"
	"strconv"
	"strings"
	"sync"
	"syscall"
	"time"
)

var (
	verifHome = "/verif"
	repoRoot  = "/repo"
)

func die2(format string, args ...any) {
	fmt.Fprintf(os.Stderr, "simcheck: "+format+"\n", args...)
	cleanupAll()
	os.Exit(2)
}

var (
	cleanMu   sync.Mutex
	cleanDirs []string
)

func registerScratch(d string) {
	cleanMu.Lock()
	cleanDirs = append(cleanDirs, d)
	cleanMu.Unlock()
}

func cleanupAll() {
	cleanMu.Lock()
	defer cleanMu.Unlock()
	for _, d := range cleanDirs {
		os.RemoveAll(d)
	}
	cleanDirs = nil
}

func goEnv() []string {
	env := os.Environ()
	out := env[:0:0]
	for _, e := range env {
		k := strings.SplitN(e, "=", 2)[0]
		switch k {
		case "GOFLAGS", "GOPROXY", "GOSUMDB", "GOTOOLCHAIN", "GOWORK", "GORACE", "GOMAXPROCS", "GODEBUG":
			continue
		}
		out = append(out, e)
	}
	return append(out, "GOFLAGS=-mod=mod", "GOPROXY=off", "GOSUMDB=off", "GOTOOLCHAIN=local", "GOWORK=off", "CGO_ENABLED=1")
}

type build struct {
	Dir      string
	Worker   string // race build
	WorkerNR string // plain build
	Instr    *instrResult
	GoBin    string
	GoVer    string
	Head     string
	Dirty    bool
	BuildS   float64
}

func copyTree(src, dst string) error {
	return filepath.Walk(src, func(p string, fi os.FileInfo, err error) error {
		if err != nil {
			return err
		}
		rel, _ := filepath.Rel(src, p)
		out := filepath.Join(dst, rel)
		if fi.IsDir() {
			return os.MkdirAll(out, 0o755)
		}
		b, err := os.ReadFile(p)
		if err != nil {
			return err
		}
		return os.WriteFile(out, b, 0o644)
	})
}

func cmdOut(dir string, env []string, name string, args ...string) (string, error) {
	c := exec.Command(name, args...)
	c.Dir = dir
	if env != nil {
		c.Env = env
	}
	var buf bytes.Buffer
	c.Stdout = &buf
	c.Stderr = &buf
	err := c.Run()
	return buf.String(), err
}

// goDirective: the language version of the library's go.mod (it decides loop
// variable semantics and which language features compile), but never below
// 1.22, which the simulator's own packages need.
func goDirective(root string) string {
	v := "1.22"
	data, err := os.ReadFile(filepath.Join(root, "go.mod"))
	if err != nil {
		return v
	}
	for _, l := range strings.Split(string(data), "\n") {
		f := strings.Fields(l)
		if len(f) == 2 && f[0] == "go" {
			var maj, min int
			if n, _ := fmt.Sscanf(f[1], "%d.%d", &maj, &min); n == 2 && (maj > 1 || min >= 22) {
				v = f[1]
			}
		}
	}
	return v
}

// doBuild assembles the scratch module and builds the worker(s).
func doBuild(tag string, gobin string, race, plain bool) *build {
	t0 := time.Now()
	dir, err := os.MkdirTemp("", "cvss-sim-"+tag+"-")
	if err != nil {
		die2("scratch: %v", err)
	}
	registerScratch(dir)
	b := &build{Dir: dir, GoBin: gobin}
	res, err := instrumentTree(repoRoot, dir, true)
	if err != nil {
		die2("instrument: %v", err)
	}
	b.Instr = res
	if len(res.Unsupported) > 0 {
		for _, u := range res.Unsupported {
			fmt.Printf("UNSUPPORTED %s\n", u)
		}
		die2("library code uses constructs the simulator does not own; undecidable here")
	}
	for _, need := range []string{"20", "30", "31", "40"} {
		found := false
		for _, d := range res.PkgDirs {
			found = found || d == need
		}
		if !found {
			die2("package directory %s not found in %s", need, repoRoot)
		}
	}
	if err := copyTree(filepath.Join(verifHome, "sim"), filepath.Join(dir, "verifsim")); err != nil {
		die2("copy sim: %v", err)
	}
	gomod := "module " + modPath + "\n\ngo " + goDirective(repoRoot) + "\n"
	os.WriteFile(filepath.Join(dir, "go.mod"), []byte(gomod), 0o644)
	var pts bytes.Buffer
	fmt.Fprintf(&pts, "package main\n\nconst numPoints = %d\n\nconst srcHash = %q\n\n// libSpawns: the library starts goroutines or uses channels; calm evaluations\n// then run inside a trivial simulation instead of a plain call.\nconst libSpawns = %v\n\nvar pointSites = []string{\n", res.Points, res.SrcHash, res.GoStmts > 0 || res.ChanFiles > 0)
	for _, s := range res.PointSite {
		fmt.Fprintf(&pts, "\t%q,\n", s)
	}
	pts.WriteString("}\n")
	os.WriteFile(filepath.Join(dir, "verifsim", "worker", "points.go"), pts.Bytes(), 0o644)
	os.WriteFile(filepath.Join(dir, "verifsim", "worker", "extra_api.go"), []byte(res.ExtraAPISrc), 0o644)

	env := goEnv()
	if v, err := cmdOut(dir, env, gobin, "version"); err == nil {
		b.GoVer = strings.TrimSpace(v)
	} else {
		die2("go toolchain %s: %v %s", gobin, err, v)
	}
	var wg sync.WaitGroup
	var errRace, errPlain error
	var outRace, outPlain string
	if race {
		b.Worker = filepath.Join(dir, "worker-race")
		wg.Add(1)
		go func() {
			defer wg.Done()
			outRace, errRace = cmdOut(dir, env, gobin, "build", "-race", "-o", b.Worker, "./verifsim/worker")
		}()
	}
	if plain {
		b.WorkerNR = filepath.Join(dir, "worker-plain")
		wg.Add(1)
		go func() {
			defer wg.Done()
			outPlain, errPlain = cmdOut(dir, env, gobin, "build", "-o", b.WorkerNR, "./verifsim/worker")
		}()
	}
	wg.Wait()
	if errRace != nil {
		die2("build (race) failed: %v\n%s", errRace, outRace)
	}
	if errPlain != nil {
		die2("build failed: %v\n%s", errPlain, outPlain)
	}
	if h, err := cmdOut(repoRoot, nil, "git", "rev-parse", "HEAD"); err == nil {
		b.Head = strings.TrimSpace(h)
	}
	if s, err := cmdOut(repoRoot, nil, "git", "status", "--porcelain"); err == nil {
		b.Dirty = strings.TrimSpace(s) != ""
	}
	b.BuildS = time.Since(t0).Seconds()
	return b
}

// ------------------------------------------------------------------ worker protocol

type violation struct {
	Prop     string `json:"prop"`
	Class    string `json:"class"`
	Task     int    `json:"task"`
	Op       int    `json:"op"`
	Detail   string `json:"detail"`
	NeedsRun int    `json:"needs_run"`
}

type violationMsg struct {
	Type     string          `json:"type"`
	Worker   int             `json:"worker"`
	Run      int             `json:"run"`
	Seed     uint64          `json:"seed"`
	BaseSeed uint64          `json:"base_seed"`
	Cold     bool            `json:"cold"`
	V        violation       `json:"violation"`
	File     json.RawMessage `json:"file"`
}

type workerOut struct {
	progress string // file with the index of the run in progress
	worker   int
	cold     bool
	stats    map[string]any
	raw      json.RawMessage
	viol     []violationMsg
	err      error
	log      string
	race     string
}

// workerTimeout is a watchdog for harness liveness only (a hung worker ends the
// check as undecided, exit 2); it never influences what a run does.
func workerTimeout(args []string) time.Duration {
	for i, a := range args {
		if a == "-secs" && i+1 < len(args) {
			if f, err := strconv.ParseFloat(args[i+1], 64); err == nil {
				return time.Duration(f*float64(time.Second)) + 5*time.Minute
			}
		}
	}
	return 30 * time.Minute
}

// procNCPU: the CPU count a worker process reports before its first run (while
// the library's package-level variables are initialised): seeded per worker.
func procNCPU(worker int) int {
	return []int{4, 1, 2, 16}[((worker%4)+4)%4]
}

func workerOfArgs(args []string) int {
	for i, a := range args {
		if a == "-worker" && i+1 < len(args) {
			n, _ := strconv.Atoi(args[i+1])
			return n
		}
	}
	return 0
}

func runWorker(bin string, args []string, gomaxprocs int, raceLog string) *workerOut {
	return runWorkerCPU(bin, args, gomaxprocs, raceLog, procNCPU(workerOfArgs(args)))
}

func runWorkerCPU(bin string, args []string, gomaxprocs int, raceLog string, ncpu int) *workerOut {
	ctx, cancel := context.WithTimeout(context.Background(), workerTimeout(args))
	defer cancel()
	if len(args) > 0 && args[0] == "run" && workerOfArgs(args) >= 200000 {
		args = append(append([]string{}, args...), "-gcoff") // collector process
	}
	c := exec.CommandContext(ctx, bin, args...)
	env := append(goEnv(), fmt.Sprintf("VSIM_NCPU=%d", ncpu))
	if gomaxprocs > 0 {
		env = append(env, "GOMAXPROCS="+strconv.Itoa(gomaxprocs))
	}
	if raceLog != "" {
		env = append(env, "GORACE=halt_on_error=0 atexit_sleep_ms=0 log_path="+raceLog)
	} else {
		env = append(env, "GORACE=halt_on_error=0 atexit_sleep_ms=0")
	}
	c.Env = env
	var stderr bytes.Buffer
	c.Stderr = &stderr
	out, err := c.Output()
	w := &workerOut{err: err, log: stderr.String()}
	sc := bufio.NewScanner(bytes.NewReader(out))
	sc.Buffer(make([]byte, 1<<20), 1<<28)
	for sc.Scan() {
		line := sc.Bytes()
		var head struct {
			Type string `json:"type"`
		}
		if json.Unmarshal(line, &head) != nil {
			continue
		}
		switch head.Type {
		case "violation":
			var v violationMsg
			if json.Unmarshal(line, &v) == nil {
				w.viol = append(w.viol, v)
			}
		case "stats", "exec":
			w.raw = append(json.RawMessage(nil), line...)
			json.Unmarshal(line, &w.stats)
		}
	}
	return w
}

// ------------------------------------------------------------------ known findings

type knownFinding struct {
	Property string `json:"property"`
	Class    string `json:"class"`
	Match    string `json:"match"` // substring of the violation detail that identifies the failing input / call site
	What     string `json:"what"`
}

type knownFile struct {
	Known []knownFinding `json:"known"`
	Fixed []string       `json:"fixed"`
}

func knownFilePath() string {
	if alt := os.Getenv("VERIF_KNOWN_FILE"); alt != "" {
		return alt // testing the mechanism itself
	}
	return filepath.Join(verifHome, "known_findings.json")
}

func loadKnown() *knownFile {
	var k knownFile
	b, err := os.ReadFile(knownFilePath())
	if err != nil {
		return &k
	}
	if err := json.Unmarshal(b, &k); err != nil {
		die2("known_findings.json: %v", err)
	}
	return &k
}

func (k *knownFile) match(prop string, v violation) *knownFinding {
	for i := range k.Known {
		f := &k.Known[i]
		if f.Property == prop && f.Class == v.Class && f.Match != "" && strings.Contains(v.Detail, f.Match) {
			return f
		}
	}
	return nil
}

// ------------------------------------------------------------------ main

func main() {
	if h := os.Getenv("VERIF_HOME"); h != "" {
		verifHome = h
	} else if wd, err := os.Getwd(); err == nil {
		if _, err := os.Stat(filepath.Join(wd, "sim", "rt", "sim.go")); err == nil {
			verifHome = wd
		}
	}
	if r := os.Getenv("VERIF_REPO"); r != "" {
		repoRoot = r
	}
	sig := make(chan os.Signal, 1)
	signal.Notify(sig, syscall.SIGINT, syscall.SIGTERM)
	go func() {
		<-sig
		cleanupAll()
		os.Exit(2)
	}()
	if len(os.Args) < 2 {
		die2("usage: simcheck run|replay|build|selftest ...")
	}
	switch os.Args[1] {
	case "run":
		cmdRun(os.Args[2:])
	case "replay":
		cmdReplay(os.Args[2:])
	case "build":
		cmdBuild(os.Args[2:])
	case "selftest":
		cmdSelftest(os.Args[2:])
	default:
		die2("unknown command %q", os.Args[1])
	}
}

func cmdBuild(args []string) {
	fs := flag.NewFlagSet("build", flag.ExitOnError)
	keep := fs.Bool("keep", false, "keep the scratch tree and print its path")
	gobin := fs.String("go", "go", "")
	fs.Parse(args)
	b := doBuild("dev", *gobin, true, true)
	fmt.Printf("scratch=%s points=%d files=%d build_s=%.1f %s\n", b.Dir, b.Instr.Points, len(b.Instr.Files), b.BuildS, b.GoVer)
	if *keep {
		cleanMu.Lock()
		cleanDirs = nil
		cleanMu.Unlock()
	}
	cleanupAll()
}

var propTitle = map[string]string{"C14": "results do not depend on call history, interleaving or aliasing", "C02": "serialise then parse returns the same object", "C07": "setting one metric changes that metric and nothing else", "C09": "only specification metrics and values are accepted or produced"}

func tierBudget(prop, tier string) float64 {
	if s := os.Getenv("VERIF_BUDGET_S"); s != "" {
		if f, err := strconv.ParseFloat(s, 64); err == nil && f > 0 {
			return f
		}
	}
	if tier == "thorough" {
		if prop == "C14" {
			return 1200
		}
		return 480
	}
	if prop == "C14" {
		return 40
	}
	return 30
}

func cmdRun(args []string) {
	fs := flag.NewFlagSet("run", flag.ExitOnError)
	prop := fs.String("property", "", "C14 | C02 | C07 | C09")
	tier := fs.String("tier", "", "quick | thorough")
	fs.Parse(args)
	if *tier == "" {
		*tier = os.Getenv("VERIF_TIER")
	}
	if *tier == "" {
		*tier = "quick"
	}
	if _, ok := propTitle[*prop]; !ok {
		die2("unknown property %q", *prop)
	}
	seed := uint64(20261002)
	if s := os.Getenv("VERIF_SEED"); s != "" {
		if v, err := strconv.ParseInt(s, 10, 64); err == nil {
			seed = uint64(v)
		} else if v, err := strconv.ParseUint(s, 10, 64); err == nil {
			seed = v
		}
	}
	code := runProperty(*prop, *tier, seed)
	cleanupAll()
	os.Exit(code)
}

type passResult struct {
	build     *build
	outs      []*workerOut
	wall      float64
	nWorkers  int
	raceBuild bool
}

func runPass(b *build, prop string, seed uint64, secs float64, nWorkers int, race bool) *passResult {
	bin := b.WorkerNR
	if race {
		bin = b.Worker
	}
	// Two kinds of worker process share the budget. Long-lived workers execute
	// thousands of runs in one process (library state such as lazily built
	// tables or caches carries over, as in a long-running service). Cold
	// workers are many short-lived processes with a handful of runs each: the
	// state right after process start is part of the history space, too
	// ("restart" is the only crash this library can experience).
	coldShare := 0.15
	coldRuns := "6"
	if !race {
		// plain build: a process starts in a few milliseconds, restarts are cheap
		coldShare = 0.25
		coldRuns = "4"
	}
	gcShare := 0.08
	longSecs := secs * (1 - coldShare - gcShare)
	coldSecs := secs * coldShare
	gcSecs := secs * gcShare
	var mu sync.Mutex
	var outs []*workerOut
	var wg sync.WaitGroup
	t0 := time.Now()
	for w := 0; w < nWorkers; w++ {
		wg.Add(1)
		go func(w int) {
			defer wg.Done()
			raceLog := ""
			if race {
				raceLog = filepath.Join(b.Dir, fmt.Sprintf("race-w%d", w))
			}
			prog := filepath.Join(b.Dir, fmt.Sprintf("progress-%v-%d", race, w))
			o := runWorker(bin, []string{"run", "-prop", prop, "-seed", fmt.Sprint(seed), "-worker", fmt.Sprint(w), "-secs", fmt.Sprint(longSecs), "-outdir", b.Dir, "-known", knownFilePath(), "-progress", prog}, 2, raceLog)
			o.progress, o.worker = prog, w
			mu.Lock()
			outs = append(outs, o)
			mu.Unlock()
			// cold phase
			tc := time.Now()
			for k := 0; time.Since(tc).Seconds() < coldSecs; k++ {
				id := 100000 + k*nWorkers + w
				if race {
					raceLog = filepath.Join(b.Dir, fmt.Sprintf("race-c%d", id))
				}
				prog := filepath.Join(b.Dir, fmt.Sprintf("progress-%v-%d", race, id))
				o := runWorker(bin, []string{"run", "-prop", prop, "-seed", fmt.Sprint(seed), "-worker", fmt.Sprint(id), "-runs", coldRuns, "-outdir", b.Dir, "-cold", "-known", knownFilePath(), "-progress", prog}, 2, raceLog)
				o.progress, o.worker, o.cold = prog, id, true
				mu.Lock()
				outs = append(outs, o)
				mu.Unlock()
				if len(o.viol) > 0 || o.stats == nil {
					break
				}
			}
			// collector phase: processes of a few dozen ordinary runs, half of them
			// with collector faults (small heap: a collection is cheap; short
			// history: the allocator state is replayable)
			tg := time.Now()
			for k := 0; time.Since(tg).Seconds() < gcSecs; k++ {
				id := 200000 + k*nWorkers + w
				if race {
					raceLog = filepath.Join(b.Dir, fmt.Sprintf("race-g%d", id))
				}
				prog := filepath.Join(b.Dir, fmt.Sprintf("progress-%v-%d", race, id))
				o := runWorker(bin, []string{"run", "-prop", prop, "-seed", fmt.Sprint(seed), "-worker", fmt.Sprint(id), "-runs", "40", "-outdir", b.Dir, "-known", knownFilePath(), "-progress", prog}, 2, raceLog)
				o.progress, o.worker = prog, id
				mu.Lock()
				outs = append(outs, o)
				mu.Unlock()
				if len(o.viol) > 0 || o.stats == nil {
					break
				}
			}
		}(w)
	}
	wg.Wait()
	return &passResult{build: b, outs: outs, wall: time.Since(t0).Seconds(), nWorkers: nWorkers, raceBuild: race}
}

func readSet(path string, into map[uint64]struct{}) {
	b, err := os.ReadFile(path)
	if err != nil {
		return
	}
	for i := 0; i+8 <= len(b); i += 8 {
		into[binary.LittleEndian.Uint64(b[i:])] = struct{}{}
	}
}

func num(m map[string]any, path ...string) float64 {
	var cur any = m
	for _, p := range path {
		mm, ok := cur.(map[string]any)
		if !ok {
			return 0
		}
		cur = mm[p]
	}
	f, _ := cur.(float64)
	return f
}

func runProperty(prop, tier string, seed uint64) int {
	t0 := time.Now()
	budget := tierBudget(prop, tier)
	race := prop == "C14"
	nW := runtime.NumCPU()
	if nW > 16 {
		nW = 16
	}
	if nW < 2 {
		nW = 2
	}
	known := loadKnown()

	type toolchain struct{ bin string }
	tcs := []toolchain{{"go"}}
	if tier == "thorough" {
		if _, err := exec.LookPath("go1.26.8"); err == nil {
			tcs = append(tcs, toolchain{"go1.26.8"})
		}
	}
	var passes []*passResult
	var builds []*build
	nondet := false
	det := map[string]any{}
	for i, tc := range tcs {
		b := doBuild(prop, tc.bin, race, !race)
		builds = append(builds, b)
		fmt.Printf("built %s: %d files, %d preemption points, %d map ranges seeded, %d extra API wrappers, %s, %.1fs %s\n", prop, len(b.Instr.Files), b.Instr.Points, b.Instr.MapRanges, b.Instr.ExtraAPI, b.GoVer, b.BuildS, b.Instr.MapRangeNote)
		share := budget
		if len(tcs) > 1 {
			if i == 0 {
				share = budget * 0.7
			} else {
				share = budget * 0.3
			}
		}
		// determinism self-test (sample in quick, larger in thorough)
		if i == 0 {
			n := 3
			runs := 150
			if tier == "thorough" {
				n, runs = 10, 400
			}
			ok, detail := determinism(b, prop, seed, n, runs, race)
			det = detail
			if !ok {
				// Either the simulator leaks nondeterminism (harness defect) or the
				// library itself behaves differently from process to process
				// (e.g. ranges over a map while the map-range seam is off). Go on:
				// a violation whose replay file reproduces is still a violation;
				// without one the check ends as undecided (exit 2), never as "held".
				fmt.Printf("NONDETERMINISM %v\n", detail["mismatch"])
				nondet = true
			}
		}
		passes = append(passes, runPass(b, prop, seed+uint64(i)*7919, share, nW, race))
	}

	// cross-toolchain determinism: the same seeds give the same run hashes on
	// both toolchains (recorded in the evidence; a difference is printed, it is
	// not by itself a violation or a harness fault)
	if len(builds) > 1 {
		same := true
		var diffs []string
		for w := 0; w < 4; w++ {
			var hs []string
			for _, b := range builds {
				bin := b.WorkerNR
				if race {
					bin = b.Worker
				}
				o := runWorker(bin, []string{"run", "-prop", prop, "-seed", fmt.Sprint(seed), "-worker", fmt.Sprint(2000 + w), "-runs", "300", "-maxviol", "1000000"}, 4, filepath.Join(b.Dir, fmt.Sprintf("race-x%d", w)))
				h := "no-output"
				if o.stats != nil {
					h, _ = o.stats["run_hash"].(string)
				}
				hs = append(hs, h)
			}
			if hs[0] != hs[1] {
				same = false
				diffs = append(diffs, fmt.Sprintf("seed %d: %s vs %s", w, hs[0], hs[1]))
			}
		}
		det["cross_toolchain_identical"] = same
		det["cross_toolchain_seeds"] = 4
		if !same {
			det["cross_toolchain_diffs"] = diffs
			fmt.Printf("note: run hashes differ between toolchains: %v\n", diffs)
		}
	}

	// ---- aggregate
	agg := map[string]float64{}
	var totalRuns, totalOps, nonTrivial, coldRuns float64
	var processes, coldProcesses, gcProcesses int
	var gcRuns float64
	distinct := map[uint64]struct{}{}
	sigs := map[uint64]struct{}{}
	pairs := map[string]bool{}
	pairsTotal := 0
	pointsHit := map[int]bool{}
	preSites := map[int]bool{}
	policies := map[string]float64{}
	taskHist := map[string]float64{}
	aborts := map[string]float64{}
	var samples []any
	var allViol []violationMsg
	var violBuild []*build
	harnessTrouble := ""
	for _, ps := range passes {
		for w, o := range ps.outs {
			if o.stats == nil {
				if what := libraryCrash(o.log); what != "" && o.progress != "" {
					// the process died of a fatal runtime error raised inside library
					// code (unsafe misuse caught by checkptr, a fault, runaway
					// recursion): regenerate what it was executing
					if vm, ok := crashViolation(ps.build, ps.raceBuild, prop, seed, o, what); ok {
						allViol = append(allViol, vm)
						violBuild = append(violBuild, ps.build)
						continue
					}
				}
				harnessTrouble = fmt.Sprintf("worker %d produced no statistics (exit: %v) stderr: %s", w, o.err, trunc(o.log, 2000))
				continue
			}
			totalRuns += num(o.stats, "runs")
			processes++
			if num(o.stats, "worker") >= 200000 {
				gcProcesses++
				gcRuns += num(o.stats, "runs")
			}
			if b, _ := o.stats["cold"].(bool); b {
				coldProcesses++
				coldRuns += num(o.stats, "runs")
			}
			totalOps += num(o.stats, "ops")
			nonTrivial += num(o.stats, "nontrivial")
			for _, grp := range []string{"sim", "probes"} {
				if m, ok := o.stats[grp].(map[string]any); ok {
					for k, v := range m {
						if f, ok := v.(float64); ok {
							agg[grp+"."+k] += f
						}
					}
				}
			}
			for _, k := range []string{"o1_compared", "o1_calm", "o1_distinct_keys", "o1_resets", "eq_compared", "eq_states", "race_errors", "ref_compared"} {
				agg[k] += num(o.stats, k)
			}
			if m, ok := o.stats["policies"].(map[string]any); ok {
				for k, v := range m {
					policies[k] += v.(float64)
				}
			}
			if m, ok := o.stats["tasks_hist"].(map[string]any); ok {
				for k, v := range m {
					taskHist[k] += v.(float64)
				}
			}
			if m, ok := o.stats["aborts"].(map[string]any); ok {
				for k, v := range m {
					aborts[k] += v.(float64)
				}
			}
			if l, ok := o.stats["points_hit"].([]any); ok {
				for _, id := range l {
					pointsHit[int(id.(float64))] = true
				}
			}
			if l, ok := o.stats["preempt_sites"].([]any); ok {
				for _, id := range l {
					preSites[int(id.(float64))] = true
				}
			}
			if l, ok := o.stats["samples"].([]any); ok && len(samples) < 3 {
				for _, s := range l {
					if len(samples) < 3 {
						samples = append(samples, s)
					}
				}
			}
			if f, ok := o.stats["distinct_file"].(string); ok {
				readSet(f, distinct)
			}
			if f, ok := o.stats["sig_file"].(string); ok {
				readSet(f, sigs)
			}
			if t := int(num(o.stats, "set_pairs_total")); t > pairsTotal {
				pairsTotal = t
			}
			if f, ok := o.stats["pairs_file"].(string); ok {
				if b, err := os.ReadFile(f); err == nil {
					for _, l := range strings.Split(string(b), "\n") {
						if l != "" {
							pairs[l] = true
						}
					}
				}
			}
			for _, v := range o.viol {
				allViol = append(allViol, v)
				violBuild = append(violBuild, ps.build)
			}
		}
	}
	if harnessTrouble != "" && len(allViol) == 0 {
		die2("%s", harnessTrouble)
	}

	// ---- violations: minimise, replay, classify
	exit := 0
	nViolations := len(allViol)
	budgetArtefacts := 0
	knownPrinted := map[string]bool{}
	os.MkdirAll(filepath.Join(verifHome, "out", "replays"), 0o755)
	// one report per violation class is enough (the counters still show all);
	// deterministic oracles first, the race monitor's verdict last
	type pick struct {
		vm violationMsg
		b  *build
	}
	var picks []pick
	seenClass := map[string]bool{}
	for pass := 0; pass < 2; pass++ {
		for i, vm := range allViol {
			if (vm.V.Class == "race") != (pass == 1) {
				continue
			}
			if kf := known.match(prop, vm.V); kf != nil {
				if !knownPrinted[kf.Match] {
					fmt.Printf("KNOWN-FINDING: property=%s %s\n", prop, kf.What)
					knownPrinted[kf.Match] = true
				}
				nViolations--
				continue
			}
			if seenClass[vm.V.Class] || len(picks) >= 3 {
				continue
			}
			seenClass[vm.V.Class] = true
			picks = append(picks, pick{vm, violBuild[i]})
		}
	}
	type outcome struct {
		path, status string
	}
	outcomes := make([]outcome, len(picks))
	var mwg sync.WaitGroup
	for i := range picks {
		mwg.Add(1)
		go func(i int) {
			defer mwg.Done()
			p, st := minimiseAndVerify(picks[i].b, prop, picks[i].vm, seed, race)
			outcomes[i] = outcome{p, st}
		}(i)
	}
	mwg.Wait()
	confirmed := 0
	for i, pk := range picks {
		vm := pk.vm
		switch outcomes[i].status {
		case "confirmed":
			confirmed++
			fmt.Printf("violation class=%s seed=%d worker=%d run=%d: %s\n", vm.V.Class, vm.Seed, vm.Worker, vm.Run, trunc(vm.V.Detail, 600))
			fmt.Printf("VIOLATION property=%s replay=%s\n", prop, outcomes[i].path)
			exit = 1
		}
	}
	for i, pk := range picks {
		vm := pk.vm
		if outcomes[i].status == "confirmed" {
			continue
		}
		if outcomes[i].status == "budget-artefact" {
			// an expensive run, not a stuck one: nothing to report
			fmt.Printf("note: a run exhausted its step budget but finishes with 50x the budget (seed=%d): expensive, not stuck; not a violation\n", vm.Seed)
			for _, o := range allViol {
				if o.V.Class == "no-progress" && known.match(prop, o.V) == nil {
					nViolations--
					budgetArtefacts++
				}
			}
			continue
		}
		if outcomes[i].status == "harness-race" {
			fmt.Printf("HARNESS-TROUBLE class=race seed=%d: the reported race has no stack frame in library code (see %s): a defect of the simulator, not of the library\n", vm.Seed, outcomes[i].path)
			if exit == 0 {
				exit = 2
			}
			continue
		}
		if vm.V.Class == "race" {
			// The monitor reported a race inside the batch (its reports have no
			// false positives under the published edges) but a fresh process did
			// not report it again: the monitor is lossy. It is still a violation
			// that was observed; the file holds the un-minimised plan and the
			// original report.
			fmt.Printf("violation class=race (reported in the batch; not re-reported by the lossy monitor on replay) seed=%d worker=%d run=%d\n", vm.Seed, vm.Worker, vm.Run)
			if confirmed == 0 {
				fmt.Printf("VIOLATION property=%s replay=%s\n", prop, outcomes[i].path)
				exit = 1
			}
			continue
		}
		// A deterministic oracle's violation that does not reproduce from its own
		// replay file is a harness defect (hidden nondeterminism), not a finding.
		fmt.Printf("HARNESS-TROUBLE class=%s seed=%d: seen in the batch but not reproduced by its replay file %s\n", vm.V.Class, vm.Seed, outcomes[i].path)
		if exit == 0 {
			exit = 2
		}
	}

	// ---- evidence
	wall := time.Since(t0).Seconds()
	var simWall float64
	for _, ps := range passes {
		simWall += ps.wall
	}
	if simWall <= 0 {
		simWall = 1
	}
	faults := map[string]int64{
		"pool_miss_forced":                  int64(agg["sim.PoolMissForced"]),
		"pool_miss_empty":                   int64(agg["sim.PoolMissEmpty"]),
		"pool_put_dropped":                  int64(agg["sim.PoolDrops"]),
		"pool_cleared":                      int64(agg["sim.PoolClears"]),
		"gc_forced_inside_library_call":     int64(agg["sim.GCForced"]),
		"gc_forced_between_operations":      int64(agg["probes.GCBetweenOps"]),
		"set_on_stack_copy_deep_in_stack":   int64(agg["probes.StackSets"]),
		"pool_non_lifo_reuse":               int64(agg["sim.PoolNonLIFO"]),
		"preempt_inside_library":            int64(agg["sim.PreemptInLib"]),
		"switch_at_sync_or_op_boundary":     int64(agg["sim.Switches"] - agg["sim.PreemptInLib"]),
		"rejected_set":                      int64(agg["probes.SetFail"]),
		"rejected_parse":                    int64(agg["probes.ParseFail"]),
		"shared_object_write_protected_use": int64(agg["probes.SharedROUse"]),
	}
	probes := map[string]int64{
		"stale_longer_hit":               int64(agg["probes.StaleLongerHit"]),
		"stale_hit":                      int64(agg["sim.PoolStaleHits"]),
		"overlap_in_parse":               int64(agg["sim.PoolOverlap"]),
		"miss_during_overlap":            int64(agg["sim.PoolMissOverlap"]),
		"alias_hit":                      int64(agg["sim.PoolAliasHits"]),
		"preempt_inside_library":         int64(agg["sim.PreemptInLib"]),
		"shared_ro_unordered_use":        int64(agg["probes.SharedROUse"]),
		"locked_shared_use":              int64(agg["probes.LockedUse"]),
		"frame_checks":                   int64(agg["probes.FrameChecks"]),
		"o1_keys_compared":               int64(agg["o1_compared"]),
		"o1_calm_replays":                int64(agg["o1_calm"]),
		"o1_distinct_keys":               int64(agg["o1_distinct_keys"]),
		"o1x_fresh_process_compares":     int64(agg["ref_compared"]),
		"model_checks":                   int64(agg["probes.ModelChecks"]),
		"successful_sets":                int64(agg["probes.SetOK"]),
		"failed_sets":                    int64(agg["probes.SetFail"]),
		"round_trips":                    int64(agg["probes.RoundTrips"]),
		"well_formed_checks":             int64(agg["probes.WellFormedChecks"]),
		"equality_table_compares":        int64(agg["eq_compared"]),
		"set_neighbour_pairs_covered":    int64(len(pairs)),
		"set_neighbour_pairs_total":      int64(pairsTotal),
		"library_panics_observed":        int64(agg["probes.Panics"]),
		"pool_gets":                      int64(agg["sim.PoolGets"]),
		"pool_puts":                      int64(agg["sim.PoolPuts"]),
		"pool_new_calls":                 int64(agg["sim.PoolNew"]),
		"pool_outstanding_at_quiescence": int64(agg["probes.PoolOutstanding"]),
		"lock_blocks":                    int64(agg["sim.LockBlocks"]),
		"race_reports":                   int64(agg["race_errors"]),
	}
	rule := map[string]string{
		"C14": "runs are generated from (VERIF_SEED, worker, index): 1-8 caller tasks, private / lock-protected / shared read-only objects of all four versions, all exported functions, the v2 scratch pool under seeded miss/drop/clear/reuse-order faults, seeded switches at operation boundaries, simulated sync operations and statement-level preemption points. A run counts as non-trivial if at least one of: a pooled buffer with more stale slots than the current vector has parts was reused, two tasks were between Get and Put of the pool at the same time, a preemption fired inside a library call, or several tasks used a shared read-only object without ordering. distinct = distinct hash over (every scheduling and pool decision, every sync event, every operation result) among the non-trivial runs (sets capped at 2^20 per worker: a lower bound).",
	}[prop]
	if rule == "" {
		rule = "runs are generated from (VERIF_SEED, worker, index): per-object histories of Set (legal, illegal value, unknown metric, near-miss spellings), ParseVector into the object, copies, zero values and round trips, from 1-8 caller tasks (shared objects under the caller's lock), checked step by step against the reference model built from the specification tables. A run counts as non-trivial if some object went through at least two mutating operations; distinct = distinct hash over (all decisions, all operation results) among those (sets capped at 2^20 per worker: a lower bound)."
	}
	ev := map[string]any{
		"property_id": prop,
		"tier":        tier,
		"seed":        int64(seed),
		"level":       "exploration",
		"wall_s":      wall,
		"violations":  nViolations,
		"coverage": map[string]any{
			"expensive_runs_not_stuck":        budgetArtefacts,
			"collector_processes":             gcProcesses,
			"collector_process_runs":          int64(gcRuns),
			"evaluations":                     int64(totalRuns),
			"distinct_nontrivial":             int64(len(distinct)),
			"rule":                            rule,
			"samples":                         samples,
			"operations_executed":             int64(totalOps),
			"nontrivial_runs":                 int64(nonTrivial),
			"runs_per_hour":                   int64(totalRuns / simWall * 3600),
			"seeds_per_hour":                  int64(totalRuns / simWall * 3600),
			"simulated_time":                  "none: the system has no clock; logical steps are reported instead",
			"scheduling_points":               int64(agg["sim.SchedPoints"]),
			"preemption_points_executed":      int64(agg["sim.Points"]),
			"task_switches":                   int64(agg["sim.Switches"]),
			"faults_fired":                    faults,
			"probes":                          probes,
			"distinct_interleavings":          int64(len(sigs)),
			"distinct_interleavings_measure":  "hash of the per-run order of (task, sync/preemption event, object); capped at 2^20 per worker",
			"preemption_points_in_library":    builds[0].Instr.Points,
			"preemption_points_reached":       len(pointsHit),
			"preemption_points_reached_note":  "sampled: collected on every 8th run",
			"distinct_preemption_sites_fired": len(preSites),
			"policies":                        policies,
			"tasks_per_run":                   taskHist,
			"aborted_runs":                    aborts,
			"determinism_selftest":            det,
			"workers":                         nW,
			"worker_processes":                processes,
			"cold_start_processes":            coldProcesses,
			"cold_start_runs":                 int64(coldRuns),
			"toolchains":                      toolchainList(builds),
			"repo_head":                       builds[0].Head,
			"repo_dirty":                      builds[0].Dirty,
			"instrumented_src_sha256":         builds[0].Instr.SrcHash,
			"components": map[string]string{
				"real":         "every line of packages 20/30/31/40 of /repo's working tree (instrumented copy: import path of sync swapped, a point call before every statement), fmt, strings, math, the Go allocator and GC",
				"stub":         "package sync (Pool, Mutex, RWMutex, Once, Map, WaitGroup), package sync/atomic (real operations behind a scheduling point) and the choice of which caller goroutine runs",
				"not_modelled": "the real sync.Pool implementation (trusted to meet its documented contract)",
			},
			"race_monitor": race,
		},
		"assumptions": []string{
			"seeded sampling: a clean batch is evidence, not proof",
			"preemption granularity is the statement, not the machine instruction",
			"the race monitor keeps 4 access records per 8-byte word and can miss races; wrong results under statement-level preemption, the write-protected page and the string vault compensate",
			"only behaviours the real sync.Pool may show are injected (miss, drop, clear, any reuse order); pool items are never altered",
			"specification tables (metrics and value sets per version) were transcribed by hand from the CVSS documents",
		},
	}
	writeEvidence(prop, ev)
	fmt.Printf("%s %s: %d runs (%d non-trivial distinct), %d ops, %.0f runs/s, violations=%d, wall %.1fs\n", prop, tier, int64(totalRuns), len(distinct), int64(totalOps), totalRuns/simWall, nViolations, wall)
	if nondet && exit == 0 {
		fmt.Printf("HARNESS-NONDETERMINISM: the same seeds gave different runs in different processes and no reproducible violation explains it; undecided\n")
		return 2
	}
	return exit
}

func toolchainList(bs []*build) []string {
	var l []string
	for _, b := range bs {
		l = append(l, b.GoVer)
	}
	return l
}

func trunc(s string, n int) string {
	if len(s) > n {
		return s[:n] + "..."
	}
	return s
}

func writeEvidence(prop string, ev map[string]any) {
	dir := filepath.Join(verifHome, "evidence")
	os.MkdirAll(dir, 0o755)
	b, err := json.MarshalIndent(ev, "", " ")
	if err != nil {
		die2("evidence: %v", err)
	}
	tmp := filepath.Join(dir, prop+".json.tmp")
	if err := os.WriteFile(tmp, b, 0o644); err != nil {
		die2("evidence: %v", err)
	}
	os.Rename(tmp, filepath.Join(dir, prop+".json"))
}

// determinism runs n worker seeds, each in three fresh processes under
// GOMAXPROCS 1, 4 and 16, and compares the hash over all run hashes.
func determinism(b *build, prop string, seed uint64, n, runs int, race bool) (bool, map[string]any) {
	bin := b.WorkerNR
	if race {
		bin = b.Worker
	}
	type job struct{ w, gmp int }
	var jobs []job
	for w := 0; w < n; w++ {
		for _, g := range []int{1, 4, 16} {
			jobs = append(jobs, job{w, g})
		}
	}
	res := make([]string, len(jobs))
	var wg sync.WaitGroup
	sem := make(chan struct{}, runtime.NumCPU())
	for i, j := range jobs {
		wg.Add(1)
		go func(i int, j job) {
			defer wg.Done()
			sem <- struct{}{}
			defer func() { <-sem }()
			o := runWorker(bin, []string{"run", "-prop", prop, "-seed", fmt.Sprint(seed), "-worker", fmt.Sprint(1000 + j.w), "-runs", fmt.Sprint(runs), "-maxviol", "1000000"}, j.gmp, filepath.Join(b.Dir, fmt.Sprintf("race-det-%d", i)))
			if o.stats != nil {
				res[i], _ = o.stats["run_hash"].(string)
				res[i] += fmt.Sprintf("/v%d", int(num(o.stats, "det_violations")))
			} else {
				res[i] = "no-output: " + trunc(o.log, 300)
			}
		}(i, j)
	}
	wg.Wait()
	detail := map[string]any{"seeds": n, "runs_per_seed": runs, "gomaxprocs": []int{1, 4, 16}, "processes": len(jobs)}
	ok := true
	for i := 0; i < len(jobs); i += 3 {
		if res[i] != res[i+1] || res[i] != res[i+2] || strings.HasPrefix(res[i], "no-output") {
			ok = false
			detail["mismatch"] = fmt.Sprintf("worker seed %d: %s | %s | %s", jobs[i].w, res[i], res[i+1], res[i+2])
		}
	}
	detail["identical"] = ok
	return ok, detail
}

// minimiseAndVerify writes the replay file for a violation: minimised when
// possible, and verified to reproduce in a fresh process.
func minimiseAndVerify(b *build, prop string, vm violationMsg, seed uint64, race bool) (string, string) {
	bin := b.WorkerNR
	if race {
		bin = b.Worker
	}
	name := fmt.Sprintf("%s-%s-%d-w%d-r%d.json", prop, vm.V.Class, seed, vm.Worker, vm.Run)
	raw := filepath.Join(b.Dir, "raw-"+name)
	if vm.V.Class == "no-progress" {
		// The step budget is a heuristic. Before a run that exhausted it is
		// believed, it is re-examined (and minimised, and replayed) with 50
		// times the budget; a run that finishes then was merely expensive.
		var rf map[string]any
		dec := json.NewDecoder(bytes.NewReader(vm.File))
		dec.UseNumber()
		if dec.Decode(&rf) == nil {
			if plans, ok := rf["plans"].([]any); ok {
				for _, p := range plans {
					if pm, ok := p.(map[string]any); ok {
						pm["budget_x"] = 50
					}
				}
			}
			if data, err := json.Marshal(rf); err == nil {
				vm.File = data
			}
		}
	}
	os.WriteFile(raw, vm.File, 0o644)
	final := filepath.Join(verifHome, "out", "replays", name)
	minOut := filepath.Join(b.Dir, "min-"+name)
	ncpu := procNCPU(vm.Worker)
	if vm.V.Class == "library-crash" {
		// no minimiser for a process that dies: the last plan alone if that is
		// enough, else the worker's whole history
		var rf map[string]any
		dec := json.NewDecoder(bytes.NewReader(vm.File))
		dec.UseNumber()
		if dec.Decode(&rf) == nil {
			if plans, ok := rf["plans"].([]any); ok && len(plans) > 1 {
				rf["plans"] = plans[len(plans)-1:]
				if data, err := json.Marshal(rf); err == nil {
					one := filepath.Join(b.Dir, "one-"+name)
					os.WriteFile(one, data, 0o644)
					o := runWorkerCPU(bin, []string{"exec", "-in", one}, 2, "", ncpu)
					if o.stats == nil && libraryCrash(o.log) != "" {
						os.WriteFile(raw, data, 0o644)
					}
				}
			}
		}
	}
	gcoff := []string{}
	if vm.Worker >= 200000 {
		gcoff = []string{"-gcoff"}
		pf0 := "collector process: automatic collections off (worker -gcoff)"
		_ = pf0
	}
	c := exec.Command(bin, append([]string{"min", "-in", raw, "-out", minOut, "-secs", "30"}, gcoff...)...)
	if vm.V.Class == "library-crash" {
		c = exec.Command("true")
	}
	c.Env = append(goEnv(), "GORACE=halt_on_error=0 atexit_sleep_ms=0 log_path=/dev/null", fmt.Sprintf("VSIM_NCPU=%d", ncpu))
	out, _ := c.CombinedOutput()
	src := raw
	if _, err := os.Stat(minOut); err == nil {
		src = minOut
	} else if vm.V.Class != "race" && vm.V.Class != "library-crash" && vm.Run > 0 && vm.Run <= 200000 {
		// Not reproducible on its own: the library may carry state over from
		// earlier runs of that worker process. Regenerate the worker's earlier
		// plans and let the minimiser find the runs that matter.
		cold := 0
		if vm.Cold {
			cold = 1
		}
		c2 := exec.Command(bin, append([]string{"min", "-regen", fmt.Sprintf("%s,%s,%d,%d,%d,%d", prop, vm.V.Class, vm.BaseSeed, vm.Worker, vm.Run, cold), "-out", minOut, "-secs", "150"}, gcoff...)...)
		c2.Env = append(goEnv(), "GORACE=halt_on_error=0 atexit_sleep_ms=0 log_path=/dev/null", fmt.Sprintf("VSIM_NCPU=%d", ncpu))
		out, _ = c2.CombinedOutput()
		if _, err := os.Stat(minOut); err == nil {
			src = minOut
		}
	}
	// assemble the replay file: plan(s) + what was observed + provenance
	var pf map[string]any
	data, _ := os.ReadFile(src)
	// UseNumber: plans carry 64-bit seeds; float64 would round them and the
	// replay would be a different run for code that draws random numbers
	dec := json.NewDecoder(bytes.NewReader(data))
	dec.UseNumber()
	dec.Decode(&pf)
	if pf == nil {
		pf = map[string]any{}
	}
	pf["violation"] = vm.V
	pf["found"] = map[string]any{"verif_seed": seed, "worker": vm.Worker, "run": vm.Run, "run_seed": vm.Seed}
	pf["toolchain"] = b.GoVer
	pf["repo_head"] = b.Head
	pf["repo_dirty"] = b.Dirty
	pf["instrumented_src_sha256"] = b.Instr.SrcHash
	pf["race_build"] = race
	pf["proc_ncpu"] = ncpu
	pf["gc_off"] = len(gcoff) > 0
	pf["minimiser"] = strings.TrimSpace(string(lastLineOf(out)))
	// verify in a fresh process, capturing the race report text if any
	raceLog := filepath.Join(b.Dir, "race-replay-"+name)
	tmp := filepath.Join(b.Dir, "replay-"+name)
	data, _ = json.MarshalIndent(pf, "", " ")
	os.WriteFile(tmp, data, 0o644)
	status := "not-reproduced"
	tries := 1
	if vm.V.Class == "race" {
		tries = 8
	}
	for try := 0; try < tries && status != "confirmed"; try++ {
		if try > 0 {
			// shift the race monitor's trace position (Plan.Jitter)
			if plans, ok := pf["plans"].([]any); ok && len(plans) > 0 {
				if last, ok := plans[len(plans)-1].(map[string]any); ok {
					last["jitter"] = try
				}
			}
			data, _ = json.MarshalIndent(pf, "", " ")
			os.WriteFile(tmp, data, 0o644)
		}
		o := runWorkerCPU(bin, append([]string{"exec", "-in", tmp, "-trace"}, gcoff...), 2, raceLog, ncpu)
		if o.stats == nil {
			if what := libraryCrash(o.log); what != "" {
				// the replay itself dies of a fatal runtime error inside library
				// code: that is a violation in its own right, whatever class the
				// search had seen first
				status = "confirmed"
				pf["replayed"] = map[string]any{"class": "library-crash", "detail": what}
				pf["crash_report"] = trunc(o.log, 6000)
			}
		}
		if o.stats != nil {
			if vs, ok := o.stats["violations"].([]any); ok {
				for _, v := range vs {
					if m, ok := v.(map[string]any); ok && m["class"] == vm.V.Class {
						status = "confirmed"
						pf["replayed"] = m
					}
				}
			}
			pf["trace"] = o.stats["trace"]
			pf["story"] = o.stats["story"]
		}
	}
	if status != "confirmed" && vm.Worker >= 100000 && vm.V.Class != "no-progress" && vm.V.Class != "library-crash" {
		// A short-lived process (cold or collector phase): what it saw may depend
		// on the allocator's state, which the plan file does not carry but the
		// process recipe does - same binary, same seed, same worker number, same
		// number of runs. Run that process again.
		if rerunShows(bin, prop, vm, ncpu, race) {
			status = "confirmed"
			pf["rerun"] = map[string]any{"verif_seed": vm.BaseSeed, "worker": vm.Worker, "runs": vm.Run + 1, "cold": vm.Cold,
				"note": "the plan file alone does not reproduce this violation (it depends on the state of the allocator / garbage collector of the process); re-running the worker process that found it does: simcheck replay does that"}
		}
	}
	if vm.V.Class == "no-progress" && status != "confirmed" {
		status = "budget-artefact"
	}
	pf["replay_confirmed"] = status == "confirmed"
	if vm.V.Class == "race" && status == "confirmed" {
		if matches, _ := filepath.Glob(raceLog + ".*"); len(matches) > 0 {
			if t, err := os.ReadFile(matches[0]); err == nil && !raceTouchesLibrary(string(t)) {
				// both sides of every reported race are simulator / harness code:
				// that is a defect of this machinery, never of the library
				status = "harness-race"
			}
		}
	}
	if matches, _ := filepath.Glob(raceLog + ".*"); len(matches) > 0 {
		if t, err := os.ReadFile(matches[0]); err == nil {
			pf["race_report"] = trunc(string(t), 6000)
		}
	}
	data, _ = json.MarshalIndent(pf, "", " ")
	os.WriteFile(final, data, 0o644)
	return final, status
}

// libraryCrash recognises a fatal runtime error (not a panic: those are values
// to the harness) whose crashing goroutine was executing library code, and
// returns a one-line description ("" otherwise). Only kinds of fatal error
// that code can bring upon itself count; a deadlock of the simulator or an
// out-of-memory kill would be this machinery's trouble.
func libraryCrash(log string) string {
	i := strings.Index(log, "fatal error: ")
	if i < 0 {
		if i = strings.Index(log, "unexpected fault address"); i < 0 {
			return ""
		}
	}
	first := log[i:]
	if k := strings.IndexByte(first, '\n'); k >= 0 {
		first = first[:k]
	}
	ok := false
	for _, kind := range []string{"checkptr:", "unexpected fault address", "unexpected signal", "concurrent map", "stack overflow", "fault"} {
		ok = ok || strings.Contains(first, kind)
	}
	if !ok {
		return ""
	}
	// the first goroutine trace after the message is the one that died
	rest := log[i:]
	g := strings.Index(rest, "\ngoroutine ")
	if g < 0 {
		return ""
	}
	rest = rest[g+1:]
	if e := strings.Index(rest, "\n\n"); e >= 0 {
		rest = rest[:e]
	}
	frames := 0
	for _, l := range strings.Split(rest, "\n") {
		if strings.HasPrefix(l, "\t") || strings.HasPrefix(l, "goroutine ") {
			continue
		}
		frames++
		if frames > 12 {
			break
		}
		if strings.HasPrefix(l, modPath+"/") && !strings.HasPrefix(l, modPath+"/verifsim/") {
			fn := l
			if p := strings.IndexByte(fn, '('); p > 0 {
				fn = fn[:p]
			}
			return first + " in " + fn
		}
	}
	return ""
}

// crashViolation builds the violation record for a worker that died of a fatal
// runtime error in library code: the plans are regenerated from the worker's
// identity and the index of the run it was executing.
func crashViolation(b *build, race bool, prop string, seed uint64, o *workerOut, what string) (violationMsg, bool) {
	var vm violationMsg
	data, err := os.ReadFile(o.progress)
	if err != nil {
		return vm, false
	}
	run, err := strconv.Atoi(strings.TrimLeft(strings.TrimSpace(string(data)), "0"))
	if err != nil {
		run = 0
	}
	bin := b.WorkerNR
	if race {
		bin = b.Worker
	}
	tmp := filepath.Join(b.Dir, fmt.Sprintf("crash-%v-%d.json", race, o.worker))
	args := []string{"dump", "-prop", prop, "-seed", fmt.Sprint(seed), "-worker", fmt.Sprint(o.worker), "-upto", fmt.Sprint(run), "-class", "library-crash", "-out", tmp}
	if o.cold {
		args = append(args, "-cold")
	}
	if out, err := cmdOut(b.Dir, goEnv(), bin, args...); err != nil {
		_ = out
		return vm, false
	}
	file, err := os.ReadFile(tmp)
	if err != nil {
		return vm, false
	}
	vm = violationMsg{Type: "violation", Worker: o.worker, Run: run, BaseSeed: seed, Cold: o.cold, File: file}
	vm.V = violation{Prop: prop, Class: "library-crash", Task: -1, Op: -1, Detail: what + " (the worker process died; the Go runtime does not let a program survive this)", NeedsRun: -1}
	return vm, true
}

// rerunShows runs the short-lived worker process that reported vm once more
// and tells whether it reports a violation of the same class in the same run.
func rerunShows(bin, prop string, vm violationMsg, ncpu int, race bool) bool {
	// the same command line as in the search (every flag changes what the
	// process allocates), only the number of runs is cut
	scratch, err := os.MkdirTemp("", "cvss-sim-rerun-")
	if err != nil {
		return false
	}
	defer os.RemoveAll(scratch)
	args := []string{"run", "-prop", prop, "-seed", fmt.Sprint(vm.BaseSeed), "-worker", fmt.Sprint(vm.Worker), "-runs", fmt.Sprint(vm.Run + 1), "-outdir", scratch}
	if vm.Cold {
		args = append(args, "-cold")
	}
	args = append(args, "-known", knownFilePath(), "-progress", filepath.Join(scratch, "progress"))
	for try := 0; try < 3; try++ {
		o := runWorkerCPU(bin, args, 2, "", ncpu)
		for _, v := range o.viol {
			if v.V.Class == vm.V.Class && v.Run == vm.Run {
				return true
			}
		}
	}
	return false
}

// raceTouchesLibrary reports whether some stack frame of a race report lies in
// the library copy (a function of a go-cvss package other than verifsim).
func raceTouchesLibrary(report string) bool {
	for _, l := range strings.Split(report, "\n") {
		if strings.HasPrefix(l, "  "+modPath+"/") && !strings.HasPrefix(l, "  "+modPath+"/verifsim/") {
			return true
		}
	}
	return false
}

func lastLineOf(b []byte) []byte {
	b = bytes.TrimRight(b, "\n")
	if i := bytes.LastIndexByte(b, '\n'); i >= 0 {
		return b[i+1:]
	}
	return b
}

// cmdReplay re-executes a replay file against /repo's current working tree.
func cmdReplay(args []string) {
	if len(args) < 1 {
		die2("usage: simcheck replay <file>")
	}
	data, err := os.ReadFile(args[0])
	if err != nil {
		die2("%v", err)
	}
	var pf struct {
		Prop      string    `json:"prop"`
		Class     string    `json:"class"`
		Race      bool      `json:"race_build"`
		Violation violation `json:"violation"`
		ProcNCPU  int       `json:"proc_ncpu"`
		GCOff     bool      `json:"gc_off"`
		Rerun     *struct {
			Seed   uint64 `json:"verif_seed"`
			Worker int    `json:"worker"`
			Runs   int    `json:"runs"`
			Cold   bool   `json:"cold"`
		} `json:"rerun"`
	}
	if err := json.Unmarshal(data, &pf); err != nil {
		die2("%s: %v", args[0], err)
	}
	race := pf.Prop == "C14"
	if pf.Violation.Class == "library-crash" || pf.Class == "library-crash" {
		race = pf.Race // checkptr failures only exist in race builds
	}
	b := doBuild("replay", "go", race, !race)
	bin := b.WorkerNR
	if race {
		bin = b.Worker
	}
	raceLog := filepath.Join(b.Dir, "race-replay")
	if pf.ProcNCPU == 0 {
		pf.ProcNCPU = 4
	}
	execArgs := []string{"exec", "-in", args[0], "-trace"}
	if pf.GCOff {
		execArgs = append(execArgs, "-gcoff")
	}
	o := runWorkerCPU(bin, execArgs, 2, raceLog, pf.ProcNCPU)
	if o.stats == nil {
		if what := libraryCrash(o.log); what != "" {
			fmt.Printf("replayed: class=library-crash: %s\n%s\n", what, trunc(o.log, 3000))
			cleanupAll()
			fmt.Printf("VIOLATION property=%s replay=%s\n", pf.Prop, args[0])
			os.Exit(1)
		}
		die2("replay produced no result: %v %s", o.err, trunc(o.log, 2000))
	}
	hit := false
	if vs, ok := o.stats["violations"].([]any); ok {
		for _, v := range vs {
			m, _ := v.(map[string]any)
			fmt.Printf("replayed: class=%v task=%v op=%v: %v\n", m["class"], m["task"], m["op"], m["detail"])
			if m["class"] == pf.Class {
				hit = true
			}
		}
	}
	if matches, _ := filepath.Glob(raceLog + ".*"); len(matches) > 0 {
		if t, err := os.ReadFile(matches[0]); err == nil {
			fmt.Printf("%s\n", trunc(string(t), 4000))
		}
	}
	fmt.Printf("hashes: %v\n", o.stats["hashes"])
	cleanupAll()
	if hit {
		fmt.Printf("VIOLATION property=%s replay=%s\n", pf.Prop, args[0])
		os.Exit(1)
	}
	if pf.Rerun != nil {
		vm := violationMsg{Worker: pf.Rerun.Worker, Run: pf.Rerun.Runs - 1, BaseSeed: pf.Rerun.Seed, Cold: pf.Rerun.Cold}
		vm.V.Class = pf.Violation.Class
		b2 := doBuild("replay", "go", race, !race)
		bin2 := b2.WorkerNR
		if race {
			bin2 = b2.Worker
		}
		ok := rerunShows(bin2, pf.Prop, vm, pf.ProcNCPU, race)
		cleanupAll()
		if ok {
			fmt.Printf("replayed by re-running worker process %d (seed %d, %d runs): class=%s\n", pf.Rerun.Worker, pf.Rerun.Seed, pf.Rerun.Runs, pf.Violation.Class)
			fmt.Printf("VIOLATION property=%s replay=%s\n", pf.Prop, args[0])
			os.Exit(1)
		}
	}
	fmt.Printf("replay of %s: violation class %q not reproduced on the current tree\n", args[0], pf.Class)
	os.Exit(0)
}

func cmdSelftest(args []string) {
	fs := flag.NewFlagSet("selftest", flag.ExitOnError)
	n := fs.Int("seeds", 30, "")
	runs := fs.Int("runs", 300, "")
	fs.Parse(args)
	allOK := true
	for _, tc := range []string{"go", "go1.26.8"} {
		if _, err := exec.LookPath(tc); err != nil {
			continue
		}
		b := doBuild("selftest", tc, true, true)
		for _, prop := range []string{"C14", "C02", "C07", "C09"} {
			ok, d := determinism(b, prop, 99, *n, *runs, prop == "C14")
			fmt.Printf("%s %s identical=%v %v\n", b.GoVer, prop, ok, d)
			allOK = allOK && ok
		}
	}
	cleanupAll()
	if !allOK {
		os.Exit(2)
	}
}

var _ = sort.Strings
