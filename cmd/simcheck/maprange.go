package main

// Seam 4: iteration order of `for ... range <map>`.
//
// Go randomises map iteration from a runtime-internal source. Library code
// whose result depends on that order violates C14 ("determined by its
// arguments and the receiver alone"), but as long as the order comes from the
// runtime no run is repeatable and no replay file can reproduce it. The
// instrumenter therefore type-checks the library copy (go/types, standard
// library from source) and rewrites every range over a map into a range over
// vsim__.MapKeys(m): the keys in an order that is a seeded decision of the
// plan (sorted, then permuted). Entries deleted during the iteration are
// skipped, as the language requires; entries added during it are not visited,
// which the language allows.
//
// If type checking fails for any reason the rewrite is skipped (the check
// then falls back to retrying replays, see minimiseAndVerify).

import (
	"fmt"
	"go/ast"
	"go/importer"
	"go/parser"
	"go/token"
	"go/types"
	"os"
	"path/filepath"
	"sort"
	"strings"
)

// mapRanges maps "abs file path:offset of the for keyword" to true for every
// range statement over a map whose key type can be looked up again.
type mapRanges map[string]bool

// typeFacts: what the rewrites need to know from the type checker.
type typeFacts struct {
	mapRange   mapRanges
	chanRange  map[string]bool // range over a channel, keyed by the position of `for`
	chanLenCap map[string]bool // len()/cap() of a channel, keyed by the position of `(`
	pkgs       map[string]*types.Package
}

type modImporter struct {
	root  string
	fset  *token.FileSet
	std   types.Importer
	pkgs  map[string]*types.Package
	found mapRanges
	facts *typeFacts
	errs  []string
}

func (m *modImporter) Import(path string) (*types.Package, error) {
	if path == modPath || strings.HasPrefix(path, modPath+"/") {
		return m.check(path)
	}
	return m.std.Import(path)
}

func (m *modImporter) check(path string) (*types.Package, error) {
	if p, ok := m.pkgs[path]; ok {
		if p == nil {
			return nil, fmt.Errorf("import cycle or earlier failure for %s", path)
		}
		return p, nil
	}
	m.pkgs[path] = nil
	dir := filepath.Join(m.root, strings.TrimPrefix(strings.TrimPrefix(path, modPath), "/"))
	ents, err := os.ReadDir(dir)
	if err != nil {
		return nil, err
	}
	var files []*ast.File
	for _, e := range ents {
		n := e.Name()
		if e.IsDir() || !strings.HasSuffix(n, ".go") || strings.HasSuffix(n, "_test.go") {
			continue
		}
		f, err := parser.ParseFile(m.fset, filepath.Join(dir, n), nil, 0)
		if err != nil {
			return nil, err
		}
		if f.Name.Name == "main" {
			continue
		}
		files = append(files, f)
	}
	if len(files) == 0 {
		return nil, fmt.Errorf("no Go files in %s", dir)
	}
	info := &types.Info{Types: map[ast.Expr]types.TypeAndValue{}}
	conf := types.Config{Importer: m, Error: func(err error) { m.errs = append(m.errs, err.Error()) }}
	pkg, err := conf.Check(path, m.fset, files, info)
	if err != nil {
		return nil, err
	}
	m.pkgs[path] = pkg
	for _, f := range files {
		ast.Inspect(f, func(n ast.Node) bool {
			if call, ok := n.(*ast.CallExpr); ok && len(call.Args) == 1 {
				if id, ok := call.Fun.(*ast.Ident); ok && (id.Name == "len" || id.Name == "cap") {
					if tv, ok := info.Types[call.Args[0]]; ok {
						if _, isChan := tv.Type.Underlying().(*types.Chan); isChan {
							pos := m.fset.Position(call.Lparen)
							m.facts.chanLenCap[fmt.Sprintf("%s:%d", pos.Filename, pos.Offset)] = true
						}
					}
				}
				return true
			}
			rs, ok := n.(*ast.RangeStmt)
			if !ok {
				return true
			}
			tv, ok := info.Types[rs.X]
			if !ok {
				return true
			}
			if _, isChan := tv.Type.Underlying().(*types.Chan); isChan {
				pos := m.fset.Position(rs.For)
				m.facts.chanRange[fmt.Sprintf("%s:%d", pos.Filename, pos.Offset)] = true
				return true
			}
			mt, ok := tv.Type.Underlying().(*types.Map)
			if !ok {
				return true
			}
			// keys that cannot be looked up again (NaN) or compared: leave alone
			switch k := mt.Key().Underlying().(type) {
			case *types.Basic:
				if k.Info()&(types.IsFloat|types.IsComplex) != 0 {
					return true
				}
			case *types.Interface:
				return true
			}
			pos := m.fset.Position(rs.For)
			m.found[fmt.Sprintf("%s:%d", pos.Filename, pos.Offset)] = true
			return true
		})
	}
	return pkg, nil
}

// findMapRanges type-checks every package directory of the library.
func findMapRanges(root string, pkgDirs []string) (*typeFacts, error) {
	fset := token.NewFileSet()
	facts := &typeFacts{mapRange: mapRanges{}, chanRange: map[string]bool{}, chanLenCap: map[string]bool{}}
	m := &modImporter{root: root, fset: fset, std: importer.ForCompiler(fset, "source", nil), pkgs: map[string]*types.Package{}, found: facts.mapRange, facts: facts}
	sort.Strings(pkgDirs)
	for _, d := range pkgDirs {
		path := modPath
		if d != "." {
			path = modPath + "/" + filepath.ToSlash(d)
		}
		if _, err := m.check(path); err != nil {
			return nil, fmt.Errorf("type-check %s: %v %v", path, err, m.errs)
		}
	}
	facts.pkgs = m.pkgs
	return facts, nil
}

// rewriteMapRange turns
//
//	for k, v := range m { body }
//
// into
//
//	{ vsim__mN := m
//	  for _, vsim__kN := range vsim__.MapKeys(vsim__mN) {
//	      vsim__vN, vsim__okN := vsim__mN[vsim__kN]
//	      if !vsim__okN { continue }
//	      k, v := vsim__kN, vsim__vN
//	      _, _ = k, v
//	      body } }
//
// The statement is modified in place (it stays a RangeStmt, so labels keep
// working); the temporary for the map expression goes into x.X itself by
// wrapping: range vsim__.MapKeys2(m) yields (key, struct{m; k}) - simpler:
// MapIter returns a slice of key/value pairs taken at loop entry, and the body
// re-checks presence through a closure-free lookup helper.
func rewriteMapRange(rs *ast.RangeStmt, n int) {
	kv := fmt.Sprintf("vsim__e%d", n)
	key, val, tok := rs.Key, rs.Value, rs.Tok
	// for _, e := range vsim__.MapIter(m)
	rs.X = &ast.CallExpr{Fun: &ast.SelectorExpr{X: ast.NewIdent("vsim__"), Sel: ast.NewIdent("MapIter")}, Args: []ast.Expr{rs.X}}
	rs.Key = ast.NewIdent("_")
	rs.Value = ast.NewIdent(kv)
	rs.Tok = token.DEFINE
	var pre []ast.Stmt
	// if !e.Live() { continue }
	pre = append(pre, &ast.IfStmt{
		Cond: &ast.UnaryExpr{Op: token.NOT, X: &ast.CallExpr{Fun: &ast.SelectorExpr{X: ast.NewIdent(kv), Sel: ast.NewIdent("Live")}}},
		Body: &ast.BlockStmt{List: []ast.Stmt{&ast.BranchStmt{Tok: token.CONTINUE}}},
	})
	isBlank := func(e ast.Expr) bool {
		if e == nil {
			return true
		}
		id, ok := e.(*ast.Ident)
		return ok && id.Name == "_"
	}
	var lhs, rhs []ast.Expr
	if !isBlank(key) {
		lhs = append(lhs, key)
		rhs = append(rhs, &ast.SelectorExpr{X: ast.NewIdent(kv), Sel: ast.NewIdent("K")})
	}
	if !isBlank(val) {
		lhs = append(lhs, val)
		rhs = append(rhs, &ast.CallExpr{Fun: &ast.SelectorExpr{X: ast.NewIdent(kv), Sel: ast.NewIdent("V")}})
	}
	if len(lhs) > 0 {
		if tok != token.DEFINE {
			tok = token.ASSIGN
		}
		pre = append(pre, &ast.AssignStmt{Lhs: lhs, Tok: tok, Rhs: rhs})
		if tok == token.DEFINE {
			// the loop variables may be unused in odd code: keep the compiler quiet
			var blanks, uses []ast.Expr
			for _, l := range lhs {
				blanks = append(blanks, ast.NewIdent("_"))
				uses = append(uses, l)
			}
			pre = append(pre, &ast.AssignStmt{Lhs: blanks, Tok: token.ASSIGN, Rhs: uses})
		}
	}
	rs.Body.List = append(pre, rs.Body.List...)
}

// mentions reports whether the type checker saw a channel operand of
// range/len/cap in the file (channels that only appear through fields of
// other packages, e.g. time.Ticker.C, have no syntactic trace).
func (f *typeFacts) mentions(path string) bool {
	pre := path + ":"
	for k := range f.chanRange {
		if strings.HasPrefix(k, pre) {
			return true
		}
	}
	for k := range f.chanLenCap {
		if strings.HasPrefix(k, pre) {
			return true
		}
	}
	return false
}
