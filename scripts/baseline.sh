#!/bin/bash
# Runs the repository's pinned test suite (guard off: there are no hooks in /repo)
# and checks that all 184 tests of /root/.vp/BASELINE.json's stable_pass list pass.
# usage: baseline.sh [repo-root]   (default /repo)
ROOT=${1:-/repo}
export GOPROXY=off GOSUMDB=off GOTOOLCHAIN=local
unset GOFLAGS
TMP=$(mktemp)
trap 'rm -f "$TMP"' EXIT
for m in . ./differential; do
  if [ -d "$ROOT/$m" ]; then
    (cd "$ROOT/$m" && go test -json -vet=off -count=1 -timeout 25m ./... ) >> "$TMP" 2>/dev/null
  fi
done
python3 - "$TMP" <<'PY'
import json,sys
passed=set(); failed=set()
for l in open(sys.argv[1]):
    try: e=json.loads(l)
    except Exception: continue
    if e.get('Test') and e.get('Action') in ('pass','fail'):
        k=e['Package']+'::'+e['Test']
        (passed if e['Action']=='pass' else failed).add(k)
base=json.load(open('/root/.vp/BASELINE.json'))['stable_pass']
missing=[t for t in base if t not in passed]
print(f"baseline: {len(base)-len(missing)}/{len(base)} stable tests pass")
for t in missing[:20]: print("  NOT PASSING:",t)
sys.exit(1 if missing else 0)
PY
