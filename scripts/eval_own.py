#!/usr/bin/env python3
"""Run the target property's quick check on every seeded/own-* change and on the
never-alarm corpus; store the outcome in seeded/own-*/meta.json and
corpus-noalarm/results.json."""
import json, os, subprocess, sys, glob, tempfile, shutil, time

ROOT = os.path.dirname(os.path.dirname(os.path.abspath(__file__)))

def run_on(patch, prop, budget="12"):
    wt = tempfile.mkdtemp(prefix="ev-", dir="/tmp")
    subprocess.check_call(["git", "-C", "/repo", "worktree", "add", "-q", "--detach", wt, "HEAD"])
    try:
        subprocess.check_call(["git", "-C", wt, "apply", os.path.abspath(patch)])
        if os.environ.get("SKIP_BASELINE"):
            b = "baseline: skipped (validated when the change was accepted)"
        else:
            b = subprocess.run([ROOT + "/scripts/baseline.sh", wt], stdout=subprocess.PIPE, stderr=subprocess.STDOUT).stdout.decode()
        env = dict(os.environ, VERIF_REPO=wt, VERIF_BUDGET_S=budget, VERIF_HOME=ROOT)
        t0 = time.time()
        pr = subprocess.run(["bin/simcheck", "run", "--property", prop, "--tier", "quick"], cwd=ROOT, env=env, stdout=subprocess.PIPE, stderr=subprocess.STDOUT)
        txt = pr.stdout.decode(errors="replace")
        lines = [l[:400] for l in txt.splitlines() if l.startswith(("VIOLATION", "violation", "UNSUPPORTED", "HARNESS", "simcheck:", "KNOWN"))]
        subprocess.run(["git", "-C", ROOT, "checkout", "-q", "--", "evidence"], stderr=subprocess.DEVNULL)
        return {"baseline": b.strip().splitlines()[0] if b.strip() else "", "exit": pr.returncode, "wall_s": round(time.time() - t0, 1), "lines": lines[:6]}
    finally:
        subprocess.call(["git", "-C", "/repo", "worktree", "remove", "--force", wt])
        shutil.rmtree(wt, ignore_errors=True)

what = sys.argv[1] if len(sys.argv) > 1 else "own"
if what == "ids":
    # re-run the target property's quick check for the given seeded ids (budget: env BUDGET, default 15)
    for sid in sys.argv[2:]:
        d = ROOT + "/seeded/" + sid
        m = json.load(open(d + "/meta.json"))
        r = run_on(d + "/patch.diff", m["property"], os.environ.get("BUDGET", "15"))
        m.setdefault("checks", {})[m["property"]] = {"exit": r["exit"], "wall_s": r["wall_s"], "lines": r["lines"], "summary": ""}
        m.setdefault("ran", []).append("re-run: bin/simcheck run --property %s --tier quick (VERIF_BUDGET_S=%s): exit %d" % (m["property"], os.environ.get("BUDGET", "15"), r["exit"]))
        json.dump(m, open(d + "/meta.json", "w"), indent=1)
        print(sid, m["property"], r["baseline"], "exit", r["exit"], [l.split()[1] for l in r["lines"] if l.startswith("violation")])
elif what == "own":
    for d in sorted(glob.glob(ROOT + "/seeded/own-*")):
        m = json.load(open(d + "/meta.json"))
        r = run_on(d + "/patch.diff", m["property"])
        m["checks"] = {m["property"]: r}
        json.dump(m, open(d + "/meta.json", "w"), indent=1)
        print(m["id"], m["property"], r["baseline"], "exit", r["exit"], [l.split()[1] for l in r["lines"] if l.startswith("violation")])
else:
    res = {}
    for f in sorted(glob.glob(ROOT + "/corpus-noalarm/*.diff")):
        n = os.path.basename(f)[:-5]
        res[n] = {}
        for prop in ["C14", "C07", "C02", "C09"]:
            r = run_on(f, prop, "8")
            res[n][prop] = {"exit": r["exit"], "baseline": r["baseline"], "lines": r["lines"]}
            print(n, prop, r["baseline"], "exit", r["exit"], r["lines"][:2])
    json.dump(res, open(ROOT + "/corpus-noalarm/results.json", "w"), indent=1)
