#!/usr/bin/env python3
"""Validate a seeded change produced by a sub-agent and run our checks on it.

usage: eval_seeded.py <agent-out-dir> <seed-id> <property> [budget_s] [--props C14,C02]

 1. scratch worktree of /repo; the demonstration must PASS on the clean tree
 2. apply patch.diff; it must build; the pinned suite must pass (184/184);
    the demonstration must FAIL
 3. run the quick check(s) against the patched tree (VERIF_REPO=<worktree>)
 4. write /verif/seeded/<seed-id>/{patch.diff, demo files, meta.json}
The worktree is removed afterwards.
"""
import json, os, shutil, subprocess, sys, tempfile, time

ENV = dict(os.environ, GOPROXY="off", GOSUMDB="off", GOTOOLCHAIN="local")
ENV.pop("GOFLAGS", None)


def sh(cmd, cwd, timeout=900):
    p = subprocess.run(cmd, shell=True, cwd=cwd, env=ENV, stdout=subprocess.PIPE, stderr=subprocess.STDOUT, timeout=timeout)
    return p.returncode, p.stdout.decode(errors="replace")


def main():
    out_dir, sid, prop = sys.argv[1], sys.argv[2], sys.argv[3]
    budget = sys.argv[4] if len(sys.argv) > 4 and not sys.argv[4].startswith("--") else "20"
    props = [prop]
    for a in sys.argv:
        if a.startswith("--props"):
            props = a.split("=", 1)[1].split(",")
    meta = json.load(open(os.path.join(out_dir, "meta.json")))
    wt = tempfile.mkdtemp(prefix="ev-", dir="/tmp")
    subprocess.check_call(["git", "-C", "/repo", "worktree", "add", "-q", "--detach", wt, "HEAD"])
    res = {"id": sid, "property": prop, "agent_meta": meta, "ran": []}
    try:
        # the demo command refers to out/<i>/...: make that path exist
        agent_root = os.path.dirname(os.path.dirname(os.path.abspath(out_dir)))
        os.symlink(os.path.join(agent_root, "out"), os.path.join(wt, "out"))
        demo = meta.get("demo_cmd", "")
        demo = demo.replace(agent_root + "/", "").replace(agent_root, ".")
        # drop a trailing remark in parentheses
        import re as _re
        demo = _re.sub(r"\s{2,}\(.*$", "", demo).strip()
        # keep the exit status of the test: drop a trailing clean-up command
        if ";" in demo and demo.rsplit(";", 1)[1].strip().startswith("rm "):
            demo = demo.rsplit(";", 1)[0].strip()
        rc, o = sh(demo, wt)
        res["demo_on_clean"] = {"cmd": demo, "exit": rc, "tail": o[-600:]}
        res["ran"].append("demonstration on the unchanged tree: exit %d" % rc)
        # untracked demo files stay; apply patch
        rc, o = sh("git apply out/%s/patch.diff" % os.path.basename(out_dir.rstrip("/")), wt)
        if rc != 0:
            res["error"] = "patch does not apply: " + o[-400:]
            raise SystemExit
        rc, o = sh("go build ./... ", wt)
        res["builds"] = rc == 0
        rc, o = sh(demo, wt)
        res["demo_on_patched"] = {"exit": rc, "tail": o[-900:]}
        res["ran"].append("demonstration on the patched tree: exit %d" % rc)
        # remove the demo test files before the baseline and the checks
        # (not `git clean`: files the patch adds are untracked, too)
        sh("find . -name 'zz*_test.go' -not -path './out/*' -delete; rm -rf zzdemo", wt)
        rc, o = sh("/verif/scripts/baseline.sh %s" % wt, wt)
        res["baseline"] = o.strip().splitlines()[0] if o.strip() else ""
        res["baseline_ok"] = rc == 0
        res["ran"].append("pinned suite on the patched tree: " + res["baseline"])
        os.remove(os.path.join(wt, "out"))
        res["valid"] = bool(res["demo_on_clean"]["exit"] == 0 and res["builds"] and res["baseline_ok"] and res["demo_on_patched"]["exit"] != 0)
        res["checks"] = {}
        for p in props:
            t0 = time.time()
            env = dict(os.environ, VERIF_REPO=wt, VERIF_BUDGET_S=budget)
            pr = subprocess.run(["bin/simcheck", "run", "--property", p, "--tier", "quick"], cwd="/verif", env=env, stdout=subprocess.PIPE, stderr=subprocess.STDOUT)
            txt = pr.stdout.decode(errors="replace")
            lines = [l for l in txt.splitlines() if l.startswith(("VIOLATION", "violation", "UNSUPPORTED", "HARNESS", "simcheck:", "KNOWN"))]
            res["checks"][p] = {"exit": pr.returncode, "wall_s": round(time.time() - t0, 1), "lines": [l[:500] for l in lines[:8]], "summary": txt.strip().splitlines()[-1][:300] if txt.strip() else ""}
            res["ran"].append("bin/simcheck run --property %s --tier quick (VERIF_BUDGET_S=%s) on the patched tree: exit %d" % (p, budget, pr.returncode))
        subprocess.run(["git", "-C", "/verif", "checkout", "-q", "--", "evidence"], stderr=subprocess.DEVNULL)
    except SystemExit:
        pass
    finally:
        subprocess.call(["git", "-C", "/repo", "worktree", "remove", "--force", wt])
        shutil.rmtree(wt, ignore_errors=True)
    dst = os.path.join("/verif/seeded", sid)
    os.makedirs(dst, exist_ok=True)
    for f in os.listdir(out_dir):
        if f != "meta.json":
            shutil.copy(os.path.join(out_dir, f), os.path.join(dst, f))
    json.dump(res, open(os.path.join(dst, "meta.json"), "w"), indent=1)
    det = {p: c["exit"] for p, c in res.get("checks", {}).items()}
    print(sid, "valid=%s" % res.get("valid"), "checks=%s" % det, res.get("error", ""))
    for p, c in res.get("checks", {}).items():
        for l in c["lines"][:3]:
            print("   ", l[:260])


main()
