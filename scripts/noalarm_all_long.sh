#!/bin/bash
# Every never-alarm rewrite, C14 check only, long budget (default 80 s), no pinned-suite run.
ROOT=$(cd "$(dirname "$0")/.." && pwd)
BUD=${1:-80}
for f in "$ROOT"/corpus-noalarm/n*.diff; do
  n=$(basename "$f" .diff)
  WT=$(mktemp -d /tmp/nal-XXXXXX)
  git -C /repo worktree add -q --detach "$WT" HEAD || exit 2
  git -C "$WT" apply "$f" || echo "$n: patch does not apply"
  r=$(cd "$ROOT" && VERIF_HOME="$ROOT" VERIF_REPO="$WT" VERIF_BUDGET_S=$BUD bin/simcheck run --property C14 --tier quick 2>&1 | grep -aE "quick:|^VIOLATION|HARNESS|UNSUPP" | cut -c1-160 | tr '\n' ' ')
  echo "$n exit-line: $r"
  git -C /repo worktree remove --force "$WT" >/dev/null 2>&1; rm -rf "$WT"
  git -C "$ROOT" checkout -q -- evidence 2>/dev/null
done
