#!/bin/bash
# Never-alarm rewrites that exercise the simulated primitives, with a long budget (C14 only).
ROOT=$(cd "$(dirname "$0")/.." && pwd)
for n in n1 n2 n4 n10 n11 n12 n13 n14 n8 n15 n16 n18 n19 n20 n23 n24 n25 n26 n27 n28 n29 n31; do
  echo "=== $n"; "$ROOT/scripts/try_mutant.sh" "$ROOT/corpus-noalarm/$n.diff" C14 ${1:-240} 2>&1 | grep -v conda | grep -E "quick:|exit=|VIOL|HARNESS|UNSUPP|NONDET"
done
