#!/bin/bash
# usage: run_corpus.sh seeded|noalarm [budget_s]
# Re-runs the quick check of the target property on every seeded change
# (expected: exit 1) or every check on every never-alarm rewrite (expected: exit 0).
cd /verif
BUD=${2:-15}
if [ "$1" = seeded ]; then
  for d in seeded/*/; do
    id=$(basename $d); prop=$(python3 -c "import json;print(json.load(open('$d/meta.json'))['property'])")
    r=$(scripts/try_mutant.sh $d/patch.diff $prop $BUD 2>&1 | grep -E "^exit=|VIOLATION" | tr '\n' ' ')
    echo "$id $prop $r" | cut -c1-200
  done
else
  for f in corpus-noalarm/*.diff; do
    for prop in C14 C07 C02 C09; do
      r=$(scripts/try_mutant.sh $f $prop $BUD 2>&1 | grep -E "^exit=|VIOLATION|HARNESS|UNSUPPORTED" | tr '\n' ' ')
      echo "$(basename $f) $prop $r" | cut -c1-200
    done
  done
fi
