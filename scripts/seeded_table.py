#!/usr/bin/env python3
"""Prints the markdown table of seeded changes and which check caught them (from seeded/*/meta.json)."""
import json, glob, os
rows = []
for f in sorted(glob.glob('/verif/seeded/*/meta.json')):
    d = json.load(open(f))
    sid = d['id']
    prop = d['property']
    am = d.get('agent_meta', d)
    summ = (am.get('summary') or '').replace('\n', ' ').replace('|', '/')
    needs = (am.get('needs') or '').replace('\n', ' ').replace('|', '/')
    ck = d.get('checks', {}).get(prop, {})
    classes = []
    for l in ck.get('lines', []):
        if l.startswith('violation class='):
            c = l.split()[1].split('=')[1]
            if c not in classes:
                classes.append(c)
    verdict = {1: 'caught', 0: 'MISSED', 2: 'undecided'}.get(ck.get('exit'), '?')
    if d.get('in_scope') is False:
        verdict = 'quiet (correct: out of scope)'
    if d.get('in_scope') == 'other-checks':
        verdict = 'not by its own check; caught by the C14 check (C07-f-3: and by the C09 check)'
    if d.get('in_scope') == 'unreachable':
        verdict = 'MISSED (out of reach by construction)'
    if d.get('assessment'):
        needs = d['assessment'].replace('|', '/')[:260]
    valid = d.get('valid', 'own')
    rows.append((sid, prop, valid, verdict, ', '.join(classes), summ[:150], needs[:150]))
print('| id | property | valid | quick check | violation classes | change | needs |')
print('|---|---|---|---|---|---|---|')
for r in rows:
    print('| ' + ' | '.join(str(x) for x in r) + ' |')
