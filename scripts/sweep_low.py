#!/usr/bin/env python3
"""Marginality sweep: run the target property's quick check on every seeded
change with a FRACTION of the registered budget (env BUDGET, default 8 s) and
print the ones that are no longer caught. Nothing is written to seeded/."""
import json, os, subprocess, sys, glob, tempfile, shutil

ROOT = os.path.dirname(os.path.dirname(os.path.abspath(__file__)))
budget = os.environ.get("BUDGET", "8")
ids = sys.argv[1:] or sorted(os.path.basename(d) for d in glob.glob(ROOT + "/seeded/*") if os.path.isdir(d) and not os.path.basename(d).startswith("_"))
for sid in ids:
    d = ROOT + "/seeded/" + sid
    m = json.load(open(d + "/meta.json"))
    prop = m["property"]
    wt = tempfile.mkdtemp(prefix="sw-", dir="/tmp")
    subprocess.check_call(["git", "-C", "/repo", "worktree", "add", "-q", "--detach", wt, "HEAD"])
    try:
        subprocess.check_call(["git", "-C", wt, "apply", d + "/patch.diff"])
        env = dict(os.environ, VERIF_REPO=wt, VERIF_BUDGET_S=budget, VERIF_HOME=ROOT)
        pr = subprocess.run(["bin/simcheck", "run", "--property", prop, "--tier", "quick"], cwd=ROOT, env=env, stdout=subprocess.PIPE, stderr=subprocess.STDOUT)
        txt = pr.stdout.decode(errors="replace")
        nv = [l for l in txt.splitlines() if " quick: " in l]
        print(sid, prop, "exit", pr.returncode, nv[-1].split("violations=")[-1] if nv else "", flush=True)
        subprocess.run(["git", "-C", ROOT, "checkout", "-q", "--", "evidence"], stderr=subprocess.DEVNULL)
    finally:
        subprocess.call(["git", "-C", "/repo", "worktree", "remove", "--force", wt])
        shutil.rmtree(wt, ignore_errors=True)
