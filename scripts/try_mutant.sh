#!/bin/bash
# usage: try_mutant.sh <patch.diff> <property> [budget_s]
# Applies the patch to a scratch worktree of /repo, runs the pinned tests and the
# quick check of the property against that tree, removes the worktree again.
# Works from /verif or from a snapshot of it (paths are relative to this script).
set -u
ROOT=$(cd "$(dirname "$0")/.." && pwd)
PATCH=$(readlink -f "$1"); PROP=$2; BUD=${3:-20}
[ -x "$ROOT/bin/simcheck" ] || (cd "$ROOT" && GOFLAGS=-mod=mod GOPROXY=off GOSUMDB=off GOTOOLCHAIN=local GOWORK=off go build -o bin/simcheck ./cmd/simcheck) || exit 2
WT=$(mktemp -d /tmp/mut-XXXXXX)
git -C /repo worktree add -q --detach "$WT" HEAD || exit 2
trap 'git -C /repo worktree remove --force "$WT" >/dev/null 2>&1; rm -rf "$WT"' EXIT
git -C "$WT" apply "$PATCH" || { echo "patch does not apply"; exit 2; }
"$ROOT/scripts/baseline.sh" "$WT" | tail -3
cd "$ROOT" && VERIF_HOME="$ROOT" VERIF_REPO="$WT" VERIF_BUDGET_S=$BUD bin/simcheck run --property "$PROP" --tier quick | grep -v "^built" | cut -c1-700
echo "exit=${PIPESTATUS[0]}"
git -C "$ROOT" checkout -q -- evidence 2>/dev/null
