// Package atomic is the simulated twin of sync/atomic: every operation is the
// real atomic operation (so its happens-before edges are the real ones, which
// the race monitor understands) preceded by a scheduling point of cvss-sim.
// For data-race-free code, switching at synchronisation operations covers
// every behaviour; lock-free code built on atomics has its windows between
// two atomic operations, and this is where the seeded scheduler can switch.
package atomic

import (
	ra "sync/atomic"
	"unsafe"

	"github.com/pandatix/go-cvss/verifsim/rt"
)

func sp() { rt.SyncPoint('a', 0) }

func SwapInt32(addr *int32, new int32) int32         { sp(); return ra.SwapInt32(addr, new) }
func SwapInt64(addr *int64, new int64) int64         { sp(); return ra.SwapInt64(addr, new) }
func SwapUint32(addr *uint32, new uint32) uint32     { sp(); return ra.SwapUint32(addr, new) }
func SwapUint64(addr *uint64, new uint64) uint64     { sp(); return ra.SwapUint64(addr, new) }
func SwapUintptr(addr *uintptr, new uintptr) uintptr { sp(); return ra.SwapUintptr(addr, new) }
func SwapPointer(addr *unsafe.Pointer, new unsafe.Pointer) unsafe.Pointer {
	sp()
	return ra.SwapPointer(addr, new)
}

func CompareAndSwapInt32(addr *int32, old, new int32) bool {
	sp()
	return ra.CompareAndSwapInt32(addr, old, new)
}
func CompareAndSwapInt64(addr *int64, old, new int64) bool {
	sp()
	return ra.CompareAndSwapInt64(addr, old, new)
}
func CompareAndSwapUint32(addr *uint32, old, new uint32) bool {
	sp()
	return ra.CompareAndSwapUint32(addr, old, new)
}
func CompareAndSwapUint64(addr *uint64, old, new uint64) bool {
	sp()
	return ra.CompareAndSwapUint64(addr, old, new)
}
func CompareAndSwapUintptr(addr *uintptr, old, new uintptr) bool {
	sp()
	return ra.CompareAndSwapUintptr(addr, old, new)
}
func CompareAndSwapPointer(addr *unsafe.Pointer, old, new unsafe.Pointer) bool {
	sp()
	return ra.CompareAndSwapPointer(addr, old, new)
}

func AddInt32(addr *int32, delta int32) int32         { sp(); return ra.AddInt32(addr, delta) }
func AddUint32(addr *uint32, delta uint32) uint32     { sp(); return ra.AddUint32(addr, delta) }
func AddInt64(addr *int64, delta int64) int64         { sp(); return ra.AddInt64(addr, delta) }
func AddUint64(addr *uint64, delta uint64) uint64     { sp(); return ra.AddUint64(addr, delta) }
func AddUintptr(addr *uintptr, delta uintptr) uintptr { sp(); return ra.AddUintptr(addr, delta) }

func AndInt32(addr *int32, mask int32) int32     { sp(); return ra.AndInt32(addr, mask) }
func AndUint32(addr *uint32, mask uint32) uint32 { sp(); return ra.AndUint32(addr, mask) }
func AndInt64(addr *int64, mask int64) int64     { sp(); return ra.AndInt64(addr, mask) }
func AndUint64(addr *uint64, mask uint64) uint64 { sp(); return ra.AndUint64(addr, mask) }
func OrInt32(addr *int32, mask int32) int32      { sp(); return ra.OrInt32(addr, mask) }
func OrUint32(addr *uint32, mask uint32) uint32  { sp(); return ra.OrUint32(addr, mask) }
func OrInt64(addr *int64, mask int64) int64      { sp(); return ra.OrInt64(addr, mask) }
func OrUint64(addr *uint64, mask uint64) uint64  { sp(); return ra.OrUint64(addr, mask) }

func LoadInt32(addr *int32) int32                     { sp(); return ra.LoadInt32(addr) }
func LoadInt64(addr *int64) int64                     { sp(); return ra.LoadInt64(addr) }
func LoadUint32(addr *uint32) uint32                  { sp(); return ra.LoadUint32(addr) }
func LoadUint64(addr *uint64) uint64                  { sp(); return ra.LoadUint64(addr) }
func LoadUintptr(addr *uintptr) uintptr               { sp(); return ra.LoadUintptr(addr) }
func LoadPointer(addr *unsafe.Pointer) unsafe.Pointer { sp(); return ra.LoadPointer(addr) }

func StoreInt32(addr *int32, val int32)                     { sp(); ra.StoreInt32(addr, val) }
func StoreInt64(addr *int64, val int64)                     { sp(); ra.StoreInt64(addr, val) }
func StoreUint32(addr *uint32, val uint32)                  { sp(); ra.StoreUint32(addr, val) }
func StoreUint64(addr *uint64, val uint64)                  { sp(); ra.StoreUint64(addr, val) }
func StoreUintptr(addr *uintptr, val uintptr)               { sp(); ra.StoreUintptr(addr, val) }
func StorePointer(addr *unsafe.Pointer, val unsafe.Pointer) { sp(); ra.StorePointer(addr, val) }

type Int32 struct{ v ra.Int32 }

func (x *Int32) Load() int32                        { sp(); return x.v.Load() }
func (x *Int32) Store(val int32)                    { sp(); x.v.Store(val) }
func (x *Int32) Swap(new int32) int32               { sp(); return x.v.Swap(new) }
func (x *Int32) CompareAndSwap(old, new int32) bool { sp(); return x.v.CompareAndSwap(old, new) }
func (x *Int32) Add(delta int32) int32              { sp(); return x.v.Add(delta) }
func (x *Int32) And(mask int32) int32               { sp(); return x.v.And(mask) }
func (x *Int32) Or(mask int32) int32                { sp(); return x.v.Or(mask) }

type Int64 struct{ v ra.Int64 }

func (x *Int64) Load() int64                        { sp(); return x.v.Load() }
func (x *Int64) Store(val int64)                    { sp(); x.v.Store(val) }
func (x *Int64) Swap(new int64) int64               { sp(); return x.v.Swap(new) }
func (x *Int64) CompareAndSwap(old, new int64) bool { sp(); return x.v.CompareAndSwap(old, new) }
func (x *Int64) Add(delta int64) int64              { sp(); return x.v.Add(delta) }
func (x *Int64) And(mask int64) int64               { sp(); return x.v.And(mask) }
func (x *Int64) Or(mask int64) int64                { sp(); return x.v.Or(mask) }

type Uint32 struct{ v ra.Uint32 }

func (x *Uint32) Load() uint32                        { sp(); return x.v.Load() }
func (x *Uint32) Store(val uint32)                    { sp(); x.v.Store(val) }
func (x *Uint32) Swap(new uint32) uint32              { sp(); return x.v.Swap(new) }
func (x *Uint32) CompareAndSwap(old, new uint32) bool { sp(); return x.v.CompareAndSwap(old, new) }
func (x *Uint32) Add(delta uint32) uint32             { sp(); return x.v.Add(delta) }
func (x *Uint32) And(mask uint32) uint32              { sp(); return x.v.And(mask) }
func (x *Uint32) Or(mask uint32) uint32               { sp(); return x.v.Or(mask) }

type Uint64 struct{ v ra.Uint64 }

func (x *Uint64) Load() uint64                        { sp(); return x.v.Load() }
func (x *Uint64) Store(val uint64)                    { sp(); x.v.Store(val) }
func (x *Uint64) Swap(new uint64) uint64              { sp(); return x.v.Swap(new) }
func (x *Uint64) CompareAndSwap(old, new uint64) bool { sp(); return x.v.CompareAndSwap(old, new) }
func (x *Uint64) Add(delta uint64) uint64             { sp(); return x.v.Add(delta) }
func (x *Uint64) And(mask uint64) uint64              { sp(); return x.v.And(mask) }
func (x *Uint64) Or(mask uint64) uint64               { sp(); return x.v.Or(mask) }

type Uintptr struct{ v ra.Uintptr }

func (x *Uintptr) Load() uintptr                        { sp(); return x.v.Load() }
func (x *Uintptr) Store(val uintptr)                    { sp(); x.v.Store(val) }
func (x *Uintptr) Swap(new uintptr) uintptr             { sp(); return x.v.Swap(new) }
func (x *Uintptr) CompareAndSwap(old, new uintptr) bool { sp(); return x.v.CompareAndSwap(old, new) }
func (x *Uintptr) Add(delta uintptr) uintptr            { sp(); return x.v.Add(delta) }

type Bool struct{ v ra.Bool }

func (x *Bool) Load() bool                        { sp(); return x.v.Load() }
func (x *Bool) Store(val bool)                    { sp(); x.v.Store(val) }
func (x *Bool) Swap(new bool) bool                { sp(); return x.v.Swap(new) }
func (x *Bool) CompareAndSwap(old, new bool) bool { sp(); return x.v.CompareAndSwap(old, new) }

type Pointer[T any] struct{ v ra.Pointer[T] }

func (x *Pointer[T]) Load() *T                        { sp(); return x.v.Load() }
func (x *Pointer[T]) Store(val *T)                    { sp(); x.v.Store(val) }
func (x *Pointer[T]) Swap(new *T) *T                  { sp(); return x.v.Swap(new) }
func (x *Pointer[T]) CompareAndSwap(old, new *T) bool { sp(); return x.v.CompareAndSwap(old, new) }

type Value struct{ v ra.Value }

func (x *Value) Load() any                        { sp(); return x.v.Load() }
func (x *Value) Store(val any)                    { sp(); x.v.Store(val) }
func (x *Value) Swap(new any) any                 { sp(); return x.v.Swap(new) }
func (x *Value) CompareAndSwap(old, new any) bool { sp(); return x.v.CompareAndSwap(old, new) }
