// Package os is the simulated twin of the small part of package os that
// library code may plausibly read: the process environment (empty in the
// simulation: no variable is set), the pid and the standard streams (real).
// Files, processes and exits are not provided: code that uses them does not
// build and the check answers "undecidable" (exit 2).
package os

import ro "os"

type (
	File     = ro.File
	FileMode = ro.FileMode
)

var (
	Stdin  = ro.Stdin
	Stdout = ro.Stdout
	Stderr = ro.Stderr
	Args   = []string{"cvss-sim"}
)

func Getenv(key string) string                      { return "" }
func LookupEnv(key string) (string, bool)           { return "", false }
func Environ() []string                             { return nil }
func ExpandEnv(s string) string                     { return ro.Expand(s, func(string) string { return "" }) }
func Expand(s string, f func(string) string) string { return ro.Expand(s, f) }
func Getpid() int                                   { return 4242 }
func Getppid() int                                  { return 1 }
func Hostname() (string, error)                     { return "cvss-sim", nil }
