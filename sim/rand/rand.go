// Package rand is the simulated twin of math/rand: the package-level
// functions draw from a source seeded by the run's plan, so that library code
// that randomises (eviction, sampling, jitter) is repeatable. Explicitly
// seeded generators (New, NewSource) are the real, deterministic ones.
package rand

import (
	mr "math/rand"

	sim "github.com/pandatix/go-cvss/verifsim/rt"
)

type (
	Rand     = mr.Rand
	Source   = mr.Source
	Source64 = mr.Source64
	Zipf     = mr.Zipf
)

func New(src Source) *Rand                             { return mr.New(src) }
func NewSource(seed int64) Source                      { return mr.NewSource(seed) }
func NewZipf(r *Rand, s, v float64, imax uint64) *Zipf { return mr.NewZipf(r, s, v, imax) }

func Seed(seed int64) { sim.RandSeed(uint64(seed)) }

func Uint64() uint64   { return sim.RandNext() }
func Uint32() uint32   { return uint32(sim.RandNext() >> 32) }
func Int63() int64     { return int64(sim.RandNext() >> 1) }
func Int31() int32     { return int32(sim.RandNext() >> 33) }
func Int() int         { return int(uint(sim.RandNext()) >> 1) }
func Float64() float64 { return float64(sim.RandNext()>>11) / (1 << 53) }
func Float32() float32 { return float32(sim.RandNext()>>40) / (1 << 24) }
func Int63n(n int64) int64 {
	if n <= 0 {
		panic("invalid argument to Int63n")
	}
	return int64(sim.RandNext()>>1) % n
}
func Int31n(n int32) int32 {
	if n <= 0 {
		panic("invalid argument to Int31n")
	}
	return int32(Int63n(int64(n)))
}
func Intn(n int) int {
	if n <= 0 {
		panic("invalid argument to Intn")
	}
	return int(Int63n(int64(n)))
}
func Perm(n int) []int {
	m := make([]int, n)
	for i := 0; i < n; i++ {
		j := Intn(i + 1)
		m[i] = m[j]
		m[j] = i
	}
	return m
}
func Shuffle(n int, swap func(i, j int)) {
	for i := n - 1; i > 0; i-- {
		swap(i, Intn(i+1))
	}
}
func ExpFloat64() float64  { return mr.New(mr.NewSource(int64(sim.RandNext() >> 1))).ExpFloat64() }
func NormFloat64() float64 { return mr.New(mr.NewSource(int64(sim.RandNext() >> 1))).NormFloat64() }
