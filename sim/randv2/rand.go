// Package rand is the simulated twin of math/rand/v2: package-level functions
// draw from the plan-seeded source of the simulator; explicitly seeded
// generators are the real ones.
package rand

import (
	mr "math/rand/v2"

	sim "github.com/pandatix/go-cvss/verifsim/rt"
)

type (
	Rand    = mr.Rand
	Source  = mr.Source
	PCG     = mr.PCG
	ChaCha8 = mr.ChaCha8
	Zipf    = mr.Zipf
)

func New(src Source) *Rand                             { return mr.New(src) }
func NewPCG(seed1, seed2 uint64) *PCG                  { return mr.NewPCG(seed1, seed2) }
func NewChaCha8(seed [32]byte) *ChaCha8                { return mr.NewChaCha8(seed) }
func NewZipf(r *Rand, s, v float64, imax uint64) *Zipf { return mr.NewZipf(r, s, v, imax) }

type simSource struct{}

func (simSource) Uint64() uint64 { return sim.RandNext() }

func g() *Rand { return mr.New(simSource{}) }

func Uint64() uint64                     { return sim.RandNext() }
func Uint32() uint32                     { return uint32(sim.RandNext() >> 32) }
func Int64() int64                       { return int64(sim.RandNext() >> 1) }
func Int32() int32                       { return int32(sim.RandNext() >> 33) }
func Int() int                           { return int(uint(sim.RandNext()) >> 1) }
func Uint() uint                         { return uint(sim.RandNext()) }
func Int64N(n int64) int64               { return g().Int64N(n) }
func Uint64N(n uint64) uint64            { return g().Uint64N(n) }
func Int32N(n int32) int32               { return g().Int32N(n) }
func Uint32N(n uint32) uint32            { return g().Uint32N(n) }
func IntN(n int) int                     { return g().IntN(n) }
func UintN(n uint) uint                  { return g().UintN(n) }
func Float64() float64                   { return g().Float64() }
func Float32() float32                   { return g().Float32() }
func Perm(n int) []int                   { return g().Perm(n) }
func Shuffle(n int, swap func(i, j int)) { g().Shuffle(n, swap) }
func NormFloat64() float64               { return g().NormFloat64() }
func ExpFloat64() float64                { return g().ExpFloat64() }

func N[Int interface {
	~int | ~int8 | ~int16 | ~int32 | ~int64 | ~uint | ~uint8 | ~uint16 | ~uint32 | ~uint64 | ~uintptr
}](n Int) Int {
	if n <= 0 {
		panic("invalid argument to N")
	}
	return Int(g().Uint64N(uint64(n)))
}
