package rt

// Seam 5: channels. The instrumenter rewrites every channel type of the
// library copy into *Chan[T] and every channel operation into a method call
// (cmd/simcheck/chanrewrite.go), so that blocking, wake-up order and the
// choice among ready select cases are decisions of the seeded scheduler.
//
// Semantics follow the language: unbuffered channels rendezvous, buffered ones
// queue, receive from a closed channel yields the zero value, send on or close
// of a closed channel panics, a nil channel blocks forever, select chooses
// uniformly (here: by the plan-seeded order stream) among the ready cases.
// Happens-before edges are published through one token per channel
// (send -> receive, close -> receive, receive -> completion of the send that
// needed its slot); this over-approximates the guaranteed edges, which can
// only hide reports of the race monitor, never invent one.

import "unsafe"

const chanWaiters = 512 // = maxTasks: every task of a crowd may wait on one channel

type selGroup struct {
	fired bool
	idx   int
}

type chanWaiter[T any] struct {
	t     *Task
	v     T
	ok    bool // receive: value came from a send (not from close)
	done  bool
	group *selGroup
	idx   int
}

// Chan is a simulated channel.
type Chan[T any] struct {
	capacity int
	buf      []T // len == number of queued values, cap == capacity
	closed   bool
	sq       [chanWaiters]*chanWaiter[T] // blocked senders
	nsq      int
	rq       [chanWaiters]*chanWaiter[T] // blocked receivers
	nrq      int
	tok      uint64
	wl       WaitList // tasks parked in a select without a firing partner yet
}

// NewChan is make(chan T, n).
func NewChan[T any](n int) *Chan[T] {
	if n < 0 {
		panic("makechan: size out of range")
	}
	return &Chan[T]{capacity: n, buf: make([]T, 0, n)}
}

//go:norace
func (c *Chan[T]) popS() *chanWaiter[T] {
	for c.nsq > 0 {
		w := c.sq[0]
		for i := 1; i < c.nsq; i++ {
			c.sq[i-1] = c.sq[i]
		}
		c.nsq--
		c.sq[c.nsq] = nil
		if w.group != nil && w.group.fired {
			continue // a select that already fired elsewhere
		}
		return w
	}
	return nil
}

//go:norace
func (c *Chan[T]) popR() *chanWaiter[T] {
	for c.nrq > 0 {
		w := c.rq[0]
		for i := 1; i < c.nrq; i++ {
			c.rq[i-1] = c.rq[i]
		}
		c.nrq--
		c.rq[c.nrq] = nil
		if w.group != nil && w.group.fired {
			continue
		}
		return w
	}
	return nil
}

//go:norace
func (c *Chan[T]) pushS(w *chanWaiter[T]) {
	if c.nsq >= chanWaiters {
		S.abort("too-many-channel-waiters")
	}
	c.sq[c.nsq] = w
	c.nsq++
}

//go:norace
func (c *Chan[T]) pushR(w *chanWaiter[T]) {
	if c.nrq >= chanWaiters {
		S.abort("too-many-channel-waiters")
	}
	c.rq[c.nrq] = w
	c.nrq++
}

//go:norace
func (c *Chan[T]) liveS() bool {
	for i := 0; i < c.nsq; i++ {
		if c.sq[i].group == nil || !c.sq[i].group.fired {
			return true
		}
	}
	return false
}

//go:norace
func (c *Chan[T]) liveR() bool {
	for i := 0; i < c.nrq; i++ {
		if c.rq[i].group == nil || !c.rq[i].group.fired {
			return true
		}
	}
	return false
}

//go:norace
func fire[T any](w *chanWaiter[T]) {
	w.done = true
	if w.group != nil {
		w.group.fired = true
		w.group.idx = w.idx
	}
	wake(w.t)
}

//go:norace
func inSim() bool { return S != nil && S.cur != nil && !S.aborting }

// blockForever: operations on nil channels.
//
//go:norace
func blockForever() {
	if !inSim() {
		panic("cvss-sim: operation on a nil channel outside a simulated run")
	}
	for {
		S.block(S.cur)
	}
}

// Send is `c <- v`.
func (c *Chan[T]) Send(v T) {
	if c == nil {
		blockForever()
	}
	SyncPoint('>', 0)
	c.send(v)
}

//go:norace
func (c *Chan[T]) send(v T) {
	if c.closed {
		panic("send on closed channel")
	}
	raceRelMerge(unsafe.Pointer(&c.tok))
	if r := c.popR(); r != nil { // a receiver is waiting: hand over
		r.v, r.ok = v, true
		fire(r)
		return
	}
	if len(c.buf) < c.capacity {
		c.buf = append(c.buf, v) // within capacity: never grows
		c.wl.wakeAll()
		return
	}
	if !inSim() {
		panic("cvss-sim: channel send would block outside a simulated run")
	}
	w := &chanWaiter[T]{t: S.cur, v: v}
	c.pushS(w)
	c.wl.wakeAll()
	for !w.done {
		if c.closed {
			panic("send on closed channel")
		}
		S.block(S.cur)
	}
	raceAcquire(unsafe.Pointer(&c.tok))
}

// Recv is `<-c`.
func (c *Chan[T]) Recv() T {
	v, _ := c.Recv2()
	return v
}

// Recv2 is `v, ok := <-c`.
func (c *Chan[T]) Recv2() (T, bool) {
	if c == nil {
		blockForever()
	}
	SyncPoint('<', 0)
	return c.recv()
}

//go:norace
func (c *Chan[T]) recv() (T, bool) {
	var zero T
	if len(c.buf) > 0 {
		v := c.buf[0]
		n := len(c.buf)
		for i := 1; i < n; i++ {
			c.buf[i-1] = c.buf[i]
		}
		c.buf[n-1] = zero
		c.buf = c.buf[:n-1]
		if s := c.popS(); s != nil { // a blocked sender gets the free slot
			c.buf = append(c.buf, s.v)
			fire(s)
		}
		raceAcquire(unsafe.Pointer(&c.tok))
		raceRelMerge(unsafe.Pointer(&c.tok))
		c.wl.wakeAll()
		return v, true
	}
	if s := c.popS(); s != nil { // unbuffered: take it from a blocked sender
		raceAcquire(unsafe.Pointer(&c.tok))
		raceRelMerge(unsafe.Pointer(&c.tok))
		v := s.v
		fire(s)
		return v, true
	}
	if c.closed {
		raceAcquire(unsafe.Pointer(&c.tok))
		return zero, false
	}
	if !inSim() {
		panic("cvss-sim: channel receive would block outside a simulated run")
	}
	w := &chanWaiter[T]{t: S.cur}
	c.pushR(w)
	c.wl.wakeAll()
	for !w.done {
		S.block(S.cur)
	}
	raceAcquire(unsafe.Pointer(&c.tok))
	raceRelMerge(unsafe.Pointer(&c.tok))
	return w.v, w.ok
}

// Close is close(c).
func (c *Chan[T]) Close() {
	if c == nil {
		panic("close of nil channel")
	}
	SyncPoint('x', 0)
	c.close()
}

//go:norace
func (c *Chan[T]) close() {
	if c.closed {
		panic("close of closed channel")
	}
	raceRelMerge(unsafe.Pointer(&c.tok))
	c.closed = true
	for r := c.popR(); r != nil; r = c.popR() {
		r.ok = false
		fire(r)
	}
	for i := 0; i < c.nsq; i++ { // blocked senders panic when they wake up
		wake(c.sq[i].t)
	}
	c.wl.wakeAll()
}

//go:norace
func (c *Chan[T]) Len() int {
	if c == nil {
		return 0
	}
	return len(c.buf)
}

//go:norace
func (c *Chan[T]) Cap() int {
	if c == nil {
		return 0
	}
	return c.capacity
}

// ------------------------------------------------------------------ select

// SelCase is one communication clause of a rewritten select statement.
type SelCase interface {
	ready() bool
	fireNow() // performs the operation; only called when ready
	enqueue(g *selGroup, idx int, t *Task)
	collect() // after the group fired through a partner: fetch the result
	park(t *Task)
	retire(g *selGroup) // remove this select's waiters from the channel's queues
}

type recvCase[T any] struct {
	c  *Chan[T]
	v  T
	ok bool
	w  *chanWaiter[T]
}

type sendCase[T any] struct {
	c *Chan[T]
	v T
	w *chanWaiter[T]
}

// RecvCase builds the clause `case v, ok := <-c`; the result is read with
// RecvResult after Select returned this case's index.
func RecvCase[T any](c *Chan[T]) *recvCase[T] { return &recvCase[T]{c: c} }

// SendCase builds the clause `case c <- v`.
func SendCase[T any](c *Chan[T], v T) *sendCase[T] { return &sendCase[T]{c: c, v: v} }

// RecvValue returns the value a fired receive clause received.
func RecvValue[T any](rc *recvCase[T]) T { return rc.v }

// RecvResult returns what a fired receive clause received.
func RecvResult[T any](rc *recvCase[T]) (T, bool) { return rc.v, rc.ok }

//go:norace
func (r *recvCase[T]) ready() bool {
	return r.c != nil && (len(r.c.buf) > 0 || r.c.liveS() || r.c.closed)
}

//go:norace
func (r *recvCase[T]) fireNow() { r.v, r.ok = r.c.recv() }

//go:norace
func (r *recvCase[T]) enqueue(g *selGroup, idx int, t *Task) {
	if r.c == nil {
		return
	}
	r.w = &chanWaiter[T]{t: t, group: g, idx: idx}
	r.c.pushR(r.w)
}

//go:norace
func (r *recvCase[T]) collect() {
	if r.w != nil {
		r.v, r.ok = r.w.v, r.w.ok
		raceAcquire(unsafe.Pointer(&r.c.tok))
		raceRelMerge(unsafe.Pointer(&r.c.tok))
	}
}

//go:norace
func (r *recvCase[T]) park(t *Task) {
	if r.c != nil {
		r.c.wl.add(t)
	}
}

//go:norace
func (r *recvCase[T]) retire(g *selGroup) {
	if r.c != nil {
		r.c.dropGroup(g)
	}
}

//go:norace
func (s *sendCase[T]) retire(g *selGroup) {
	if s.c != nil {
		s.c.dropGroup(g)
	}
}

// dropGroup removes the queued waiters of one select statement.
//
//go:norace
func (c *Chan[T]) dropGroup(g *selGroup) {
	n := 0
	for i := 0; i < c.nsq; i++ {
		if c.sq[i].group != g {
			c.sq[n] = c.sq[i]
			n++
		}
	}
	for i := n; i < c.nsq; i++ {
		c.sq[i] = nil
	}
	c.nsq = n
	n = 0
	for i := 0; i < c.nrq; i++ {
		if c.rq[i].group != g {
			c.rq[n] = c.rq[i]
			n++
		}
	}
	for i := n; i < c.nrq; i++ {
		c.rq[i] = nil
	}
	c.nrq = n
}

//go:norace
func (s *sendCase[T]) ready() bool {
	return s.c != nil && (s.c.closed || s.c.liveR() || len(s.c.buf) < s.c.capacity)
}

//go:norace
func (s *sendCase[T]) fireNow() { s.c.send(s.v) }

//go:norace
func (s *sendCase[T]) enqueue(g *selGroup, idx int, t *Task) {
	if s.c == nil {
		return
	}
	s.w = &chanWaiter[T]{t: t, v: s.v, group: g, idx: idx}
	s.c.pushS(s.w)
}

//go:norace
func (s *sendCase[T]) collect() {
	if s.w != nil {
		raceAcquire(unsafe.Pointer(&s.c.tok))
	}
}

//go:norace
func (s *sendCase[T]) park(t *Task) {
	if s.c != nil {
		s.c.wl.add(t)
	}
}

// Select executes a select statement: it returns the index of the clause that
// communicated, or -1 for the default clause.
func Select(hasDefault bool, cases ...SelCase) int {
	SyncPoint('S', len(cases))
	return selectRun(hasDefault, cases)
}

//go:norace
func selectRun(hasDefault bool, cases []SelCase) int {
	var readyIdx [chanWaiters]int
	n := 0
	for i, c := range cases {
		if n < len(readyIdx) && c.ready() {
			readyIdx[n] = i
			n++
		}
	}
	if n > 0 {
		i := readyIdx[0]
		if n > 1 {
			i = readyIdx[int(orderNext()%uint64(n))]
		}
		cases[i].fireNow()
		return i
	}
	if hasDefault {
		return -1
	}
	if !inSim() {
		panic("cvss-sim: select would block outside a simulated run")
	}
	g := &selGroup{}
	t := S.cur
	for i, c := range cases {
		c.enqueue(g, i, t)
	}
	for !g.fired {
		// a closed channel makes a clause ready without a partner firing it
		for i, c := range cases {
			if c.ready() && !g.fired {
				g.fired = true // the queued waiters are dead from now on
				for _, o := range cases {
					o.retire(g)
				}
				c.fireNow()
				return i
			}
		}
		if g.fired {
			break
		}
		for _, c := range cases {
			c.park(t)
		}
		S.block(t)
	}
	for _, o := range cases {
		o.retire(g)
	}
	cases[g.idx].collect()
	return g.idx
}
