package rt

import (
	"fmt"
	"sort"
)

// MapEntry is one step of a rewritten `for k, v := range m` (seam 4: the
// iteration order of maps is a seeded decision of the plan, see
// cmd/simcheck/maprange.go).
type MapEntry[K comparable, V any] struct {
	K K
	m map[K]V
}

// Live reports whether the key is still in the map (entries deleted during
// the iteration must not be produced).
func (e MapEntry[K, V]) Live() bool { _, ok := e.m[e.K]; return ok }

// V is the value at the time the iteration reaches the entry.
func (e MapEntry[K, V]) V() V { return e.m[e.K] }

// MapIter returns the keys of m in the order this run iterates them: a
// canonical order (sorted) permuted by the plan-seeded order stream.
func MapIter[M ~map[K]V, K comparable, V any](m M) []MapEntry[K, V] {
	if len(m) == 0 {
		return nil
	}
	es := make([]MapEntry[K, V], 0, len(m))
	for k := range m {
		es = append(es, MapEntry[K, V]{k, m})
	}
	if len(es) == 1 {
		return es
	}
	keys := make([]string, len(es))
	for i := range es {
		keys[i] = canonKey(es[i].K)
	}
	idx := make([]int, len(es))
	for i := range idx {
		idx[i] = i
	}
	sort.Slice(idx, func(a, b int) bool { return keys[idx[a]] < keys[idx[b]] })
	// Fisher-Yates with the order stream
	for i := len(idx) - 1; i > 0; i-- {
		j := int(orderNext() % uint64(i+1))
		idx[i], idx[j] = idx[j], idx[i]
	}
	out := make([]MapEntry[K, V], len(es))
	for i, j := range idx {
		out[i] = es[j]
	}
	return out
}

func canonKey(k any) string {
	switch x := k.(type) {
	case string:
		return "s" + x
	case int:
		return fmt.Sprintf("i%020d", uint64(x)+1<<63)
	case int64:
		return fmt.Sprintf("i%020d", uint64(x)+1<<63)
	case uint64:
		return fmt.Sprintf("u%020d", x)
	case uint32:
		return fmt.Sprintf("u%020d", uint64(x))
	case uint8:
		return fmt.Sprintf("u%020d", uint64(x))
	}
	return fmt.Sprintf("%T%#v", k, k)
}

var orderState uint64 = 0x243f6a8885a308d3

//go:norace
func orderNext() uint64 {
	if S != nil && S.cur != nil && !S.aborting {
		S.St.MapOrders++
	}
	orderState += 0x9e3779b97f4a7c15
	z := orderState
	z = (z ^ (z >> 30)) * 0xbf58476d1ce4e5b9
	z = (z ^ (z >> 27)) * 0x94d049bb133111eb
	return z ^ (z >> 31)
}

//go:norace
func orderSeed(v uint64) { orderState = v ^ 0x243f6a8885a308d3 }
