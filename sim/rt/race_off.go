//go:build !race

package rt

import "unsafe"

// RaceBuild reports whether the happens-before monitor (O3) is active.
const RaceBuild = false

func raceDisable()                  {}
func raceEnable()                   {}
func raceAcquire(p unsafe.Pointer)  {}
func raceRelease(p unsafe.Pointer)  {}
func raceRelMerge(p unsafe.Pointer) {}
func RaceErrors() int               { return 0 }
