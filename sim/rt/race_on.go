//go:build race

package rt

import (
	"runtime"
	"unsafe"
)

// RaceBuild reports whether the happens-before monitor (O3) is active.
const RaceBuild = true

func raceDisable()                  { runtime.RaceDisable() }
func raceEnable()                   { runtime.RaceEnable() }
func raceAcquire(p unsafe.Pointer)  { runtime.RaceAcquire(p) }
func raceRelease(p unsafe.Pointer)  { runtime.RaceRelease(p) }
func raceRelMerge(p unsafe.Pointer) { runtime.RaceReleaseMerge(p) }
func RaceErrors() int               { return runtime.RaceErrors() }
