// Package rt is the cvss-sim runtime: caller tasks, the seeded scheduler, the
// preemption points compiled into the library copy, and the state behind the
// simulated sync primitives.
//
// Exactly one goroutine is active at any instant. Control moves between tasks
// by channel hand-offs that are hidden from the race detector
// (runtime.RaceDisable on both sides), so that for the detector two tasks are
// ordered only by the edges a real execution would have. Every function that
// touches simulator state is //go:norace for the same reason: simulator state
// is not part of the program under test.
//
// Inside //go:norace functions the compiler emits no race instrumentation,
// but runtime helpers carry their own hooks: map operations, growslice (an
// append that has to grow) and slicecopy (copy, append(a, b...)). Simulator
// state therefore uses fixed-capacity slices filled by index, hand-written
// loops and linked lists only - never maps, growing appends or copy.
package rt

import (
	"fmt"
	"os"
	"reflect"
	"runtime"
	"runtime/debug"
	"unsafe"
)

type taskState uint8

const (
	tsNew taskState = iota
	tsRunnable
	tsBlocked
	tsDone
)

// Task is one simulated caller goroutine.
type Task struct {
	ID      int
	User    bool // created by the harness (false: spawned by a library go statement)
	state   taskState
	started bool
	resume  chan struct{}
	fin     chan struct{}
	fn      func()

	gaps      []int64 // remaining preemption gaps
	countdown int64
	Points    int64
	sinceSP   int64

	// LastPoolStale is the stale-content measure of the item returned by this
	// task's latest pool Get (-1: miss).
	LastPoolStale int
	holding       int // pool items obtained and not yet put back
	quiet         int // >0: oracle observation in progress, library calls run unscheduled
}

// Quiet runs f on the current task without preemption points, scheduling
// points or pool interaction (used for oracle observations such as reading
// all metrics of an object). Outside a run it just calls f.
func Quiet(f func()) {
	t := quietEnter()
	defer quietLeave(t)
	f()
}

//go:norace
func quietEnter() *Task {
	if S == nil || S.cur == nil {
		return nil
	}
	S.cur.quiet++
	return S.cur
}

//go:norace
func quietLeave(t *Task) {
	if t != nil {
		t.quiet--
	}
}

//go:norace
func isQuiet() bool { return S == nil || S.cur == nil || S.cur.quiet > 0 || S.aborting }

// SchedLast is the schedule entry "switch to the highest-numbered runnable task".
const SchedLast = ^uint32(0)

// SchedNext is the preemption entry "hand over to the runnable task with the
// next higher number (wrapping around)": with one early preemption per task,
// every task ends up parked inside its first call before any of them resumes.
const SchedNext = ^uint32(0) - 1

// Config is the schedule / fault part of a plan.
type Config struct {
	Sched     []uint32
	PreSched  []uint32
	PoolDec   []uint8
	Preempt   [][]int64
	MaxPoints int64
	Quantum   int64
	Trace     bool
	// Calm: a trivial simulation used for reference evaluations of a library
	// that starts goroutines or uses channels (RunCalm): one caller task, no
	// preemption, every pool Get misses, every Put is dropped.
	Calm bool
	// environment seams (simulated clock, CPU count, package-level randomness)
	GCPre      bool    // run a full garbage collection at the first preemptions inside library calls
	TickNs     int64   // clock advance per executed preemption point
	ClockJumps []int64 // consumed one per scheduling point (clock skew / jumps forward)
	NumCPU     int
	RandSeed   uint64
}

// Stats are counted per run (probes and fault-kind counters).
type Stats struct {
	SchedPoints     int64
	Switches        int64
	GCForced        int64 // collections forced at preemptions inside library calls
	Preemptions     int64
	PreemptInLib    int64
	Points          int64
	PoolGets        int64
	PoolHits        int64
	PoolMissEmpty   int64
	PoolMissForced  int64
	PoolPuts        int64
	PoolDrops       int64
	PoolClears      int64
	PoolStaleHits   int64
	PoolAliasHits   int64
	PoolNew         int64
	PoolOverlap     int64 // Get while another task holds an item of the same pool
	PoolMissOverlap int64
	PoolNonLIFO     int64
	LockOps         int64
	LockBlocks      int64
	OnceOps         int64
	MapOps          int64
	Spawned         int64
	QuantumYields   int64
	ClockReads      int64
	RandDraws       int64
	MapOrders       int64 // seeded decisions about map iteration order
	TimersFired     int64
}

type abortPanic struct{ why string }

// Sim is one run.
type Sim struct {
	cfg                       Config
	tasks                     []*Task
	cur                       *Task
	schedPos, prePos, poolPos int
	userLeft                  int
	aborting                  bool
	AbortWhy                  string
	mainWake                  chan struct{}
	St                        Stats
	hash                      uint64
	sigHash                   uint64 // interleaving signature: order of (task, sync event)
	Trace                     []TraceEv
	PointHit                  []uint32 // per point id, nil if not collected
	PreemptAt                 []int    // point ids at which preemptions fired
	OnFault                   bool
	runBuf                    [maxTasks]*Task
	jumpPos                   int
	nPersist                  int
	draining                  bool  // the callers are done; goroutines of the library run on until quiescence
	drainLeft                 int64 // points left for that
	users                     []*Task
	dead                      bool // the last run was aborted: everything was unwound
	afterAbort                bool
	GoPanic                   string
}

// S is the active simulation (nil: calm mode, library code runs unscheduled).
var S *Sim

var allPools = make([]*PoolState, 0, 4096)
var allResettable []func()

// RegisterReset registers per-run reset hooks of simulated primitives.
//
//go:norace
func RegisterReset(f func()) { allResettable = append(allResettable, f) }

const fnvOff = 14695981039346656037
const fnvPrime = 1099511628211

//go:norace
func (s *Sim) mix(v uint64) {
	h := s.hash
	for i := 0; i < 8; i++ {
		h ^= v & 0xff
		h *= fnvPrime
		v >>= 8
	}
	s.hash = h
}

// TraceEv is one recorded simulator event (replay traces).
type TraceEv struct {
	Kind string
	A, B int
}

func (e TraceEv) String() string { return fmt.Sprintf("%s %d %d", e.Kind, e.A, e.B) }

const maxTasks = 512 // caller tasks plus goroutines of the library alive at one time
const waitCap = 512  // tasks parked on one primitive (= maxTasks: the list cannot overflow)
const traceCap = 1 << 16

//go:norace
func (s *Sim) ev(kind string, a, b int) {
	s.mix(uint64(len(kind))<<56 ^ uint64(kind[0])<<48 ^ uint64(kind[len(kind)-1])<<40 ^ uint64(uint32(a))<<8 ^ uint64(uint32(b))<<20)
	if s.cfg.Trace && len(s.Trace) < cap(s.Trace) {
		s.Trace = append(s.Trace, TraceEv{kind, a, b})
	}
}

//go:norace
func (s *Sim) sig(task int, kind byte, obj int) {
	h := s.sigHash
	for _, v := range [3]uint64{uint64(task), uint64(kind), uint64(obj)} {
		h ^= v
		h *= fnvPrime
	}
	s.sigHash = h
}

// Hash is the hash over every decision and event of the run.
//
//go:norace
func (s *Sim) Hash() uint64 { return s.hash }

// Note records a harness event (operation start) in the trace.
//
//go:norace
func (s *Sim) Note(kind string, a, b int) { s.ev(kind, a, b) }

// MixResult lets the harness fold operation results into the run hash.
//
//go:norace
func (s *Sim) MixResult(v uint64) { s.mix(v) }

//go:norace
func (s *Sim) SigHash() uint64 { return s.sigHash }

// New prepares a run. Tasks are added with AddTask before Run.
//
//go:norace
func New(cfg Config, nPoints int, collectCover bool) *Sim {
	// One world per process: goroutines the library started and that are
	// still alive (a worker serving requests, a janitor on a ticker) live on
	// from run to run, as they would in a real process; only the caller
	// tasks come and go. After an aborted run (deadlock, no progress)
	// everything was unwound and a new world starts.
	s := world
	if s == nil || s.dead {
		s = &Sim{mainWake: make(chan struct{}, 1)}
		s.tasks = make([]*Task, 0, maxTasks)
		s.users = make([]*Task, 0, maxTasks)
		s.PreemptAt = make([]int, 0, 64)
		if world != nil && world.dead {
			s.afterAbort = true
		}
		world = s
	}
	s.cfg = cfg
	s.hash, s.sigHash = fnvOff, fnvOff
	s.schedPos, s.prePos, s.poolPos, s.jumpPos = 0, 0, 0, 0
	s.St = Stats{}
	s.AbortWhy, s.GoPanic = "", ""
	s.aborting = false
	s.draining = false
	s.userLeft = 0
	s.cur = nil
	s.PreemptAt = s.PreemptAt[:0]
	s.Trace = nil
	s.PointHit = nil
	// keep the library's live goroutines, renumbered
	n := 0
	for _, t := range s.tasks {
		if t.state != tsDone {
			t.ID = n
			s.tasks[n] = t
			n++
		}
	}
	for i := n; i < len(s.tasks); i++ {
		s.tasks[i] = nil
	}
	s.tasks = s.tasks[:n]
	s.nPersist = n
	for i := range s.users {
		s.users[i] = nil
	}
	s.users = s.users[:0]
	if cfg.Trace {
		s.Trace = make([]TraceEv, 0, traceCap)
	}
	if s.cfg.MaxPoints <= 0 {
		s.cfg.MaxPoints = 200000
	}
	if s.cfg.Quantum <= 0 {
		s.cfg.Quantum = 5000
	}
	if collectCover {
		s.PointHit = make([]uint32, nPoints)
	}
	return s
}

// world is the persistent simulation of this process.
var world *Sim

// Persistent reports how many goroutines started by the library are alive
// between runs (evidence).
//
//go:norace
func Persistent() int {
	if world == nil {
		return 0
	}
	n := 0
	for _, t := range world.tasks {
		if t.state != tsDone && !t.User {
			n++
		}
	}
	return n
}

//go:norace
func (s *Sim) AddTask(fn func()) *Task {
	if len(s.tasks) >= maxTasks {
		panic("cvss-sim: too many tasks")
	}
	t := &Task{ID: len(s.tasks), User: true, fn: fn, resume: make(chan struct{}), fin: make(chan struct{}), LastPoolStale: -1}
	if u := len(s.users); u < len(s.cfg.Preempt) {
		t.gaps = s.cfg.Preempt[u] // read-only: nextGap only re-slices
		t.nextGap()
	}
	s.tasks = append(s.tasks, t)
	s.users = append(s.users, t)
	s.userLeft++
	return t
}

//go:norace
func (t *Task) nextGap() {
	if len(t.gaps) > 0 {
		t.countdown = t.gaps[0]
		t.gaps = t.gaps[1:]
		if t.countdown <= 0 {
			t.countdown = 1
		}
	} else {
		t.countdown = 0
	}
}

// Cur returns the running task (nil in calm mode).
//
//go:norace
func Cur() *Task {
	if S == nil {
		return nil
	}
	return S.cur
}

//go:norace
func (s *Sim) nextSched() (uint32, bool) {
	if s.schedPos < len(s.cfg.Sched) {
		c := s.cfg.Sched[s.schedPos]
		s.schedPos++
		return c, true
	}
	return 0, false
}

//go:norace
func (s *Sim) nextPre() uint32 {
	if s.prePos < len(s.cfg.PreSched) {
		c := s.cfg.PreSched[s.prePos]
		s.prePos++
		return c
	}
	return 0
}

//go:norace
func (s *Sim) nextPool() uint8 {
	if s.poolPos < len(s.cfg.PoolDec) {
		c := s.cfg.PoolDec[s.poolPos]
		s.poolPos++
		return c
	}
	return 0
}

// Consumed reports how much of each decision list the run used (minimiser).
//
//go:norace
func (s *Sim) Consumed() (sched, pre, pool int) { return s.schedPos, s.prePos, s.poolPos }

// runnable fills the scratch buffer: the result is only valid until the next call.
//
//go:norace
func (s *Sim) runnable(except *Task) []*Task {
	n := 0
	for _, t := range s.tasks {
		if t != except && (t.state == tsRunnable || t.state == tsNew) {
			s.runBuf[n] = t
			n++
		}
	}
	return s.runBuf[:n]
}

// Run executes the tasks to completion under the schedule and returns when
// every task goroutine has finished. The caller (the worker's main goroutine)
// is not a task.
func (s *Sim) Run() {
	s.start()
	// Real edges task -> main, so that the post-run oracles may read
	// everything the tasks wrote.
	for i := 0; i < s.nUsers(); i++ {
		<-s.userFin(i)
	}
}

//go:norace
func (s *Sim) nUsers() int { return len(s.users) }

//go:norace
func (s *Sim) userFin(i int) chan struct{} { return s.users[i].fin }

//go:norace
func (s *Sim) start() {
	if s.afterAbort {
		// the aborted run left locks, waiters and timers of dead tasks behind
		for _, f := range allResettable {
			f()
		}
		s.afterAbort = false
	}
	for _, p := range allPools {
		p.reset()
	}
	S = s
	if s.cfg.RandSeed != 0 {
		randState = s.cfg.RandSeed
		orderSeed(s.cfg.RandSeed)
	}
	for _, t := range s.users {
		go t.main(s)
	}
	if len(s.users) == 0 {
		S = nil
		return
	}
	first := s.pickNext(nil)
	s.cur = first
	raceDisable()
	first.resume <- struct{}{}
	<-s.mainWake
	raceEnable()
	S = nil
}

//go:norace
func (s *Sim) pickNext(cur *Task) *Task {
	run := s.runnable(nil)
	if len(run) == 0 {
		return nil
	}
	c, ok := s.nextSched()
	curOK := cur != nil && cur.state == tsRunnable
	var n *Task
	switch {
	case !ok:
		if curOK {
			n = cur
		} else {
			n = run[0]
		}
	case c == SchedLast:
		n = run[len(run)-1] // the highest-numbered runnable task (the "stall" victim)
	case curOK && c == 0:
		n = cur
	case curOK:
		n = run[int(c-1)%len(run)]
	default:
		n = run[int(c)%len(run)]
	}
	return n
}

func (t *Task) main(s *Sim) {
	debug.SetPanicOnFault(true)
	raceDisable()
	<-t.resume
	raceEnable()
	t.body(s)
	s.taskExit(t)
	close(t.fin)
}

func (t *Task) body(s *Sim) {
	defer func() {
		if r := recover(); r != nil {
			if _, ok := r.(abortPanic); ok {
				return
			}
			if !t.User {
				// a goroutine started by the library died: a real process
				// would crash here; the run is ended and the harness reports it
				s.goPanic(fmt.Sprint(r))
				return
			}
			panic(r)
		}
	}()
	if !s.isAborting() {
		t.setStarted()
		t.fn()
	}
}

//go:norace
func (s *Sim) goPanic(msg string) {
	if !s.aborting {
		s.aborting = true
		s.dead = true
		s.AbortWhy = "goroutine-panic"
		s.GoPanic = msg
	}
}

//go:norace
func (t *Task) setStarted() { t.state = tsRunnable; t.started = true }

//go:norace
func (s *Sim) isAborting() bool { return s.aborting }

// Aborting reports whether the run is being unwound.
//
//go:norace
func Aborting() bool { return S != nil && S.aborting }

// IsAbort reports whether a recovered panic value is the simulator unwinding
// a run; harness recover() blocks must re-panic it.
func IsAbort(r any) bool { _, ok := r.(abortPanic); return ok }

//go:norace
func (s *Sim) taskExit(t *Task) {
	t.state = tsDone
	s.ev("exit", t.ID, 0)
	if t.User {
		s.userLeft--
		if s.userLeft == 0 && !s.aborting {
			// The callers are done. Goroutines the library started go on
			// until they block or finish (bounded), as they would while the
			// callers are idle; then the run is over and they stay parked
			// where they are.
			s.draining = true
			s.drainLeft = drainBudget
		}
	}
	var next *Task
	if s.aborting {
		for _, o := range s.tasks {
			if o.state != tsDone {
				next = o
				break
			}
		}
	} else {
		next = s.pickNext(nil)
		for next == nil && !s.draining && s.anyBlocked() && advanceToTimer() {
			s.fireDue()
			next = s.pickNext(nil)
			if next == nil && nTimers == 0 {
				break
			}
		}
		if next == nil && s.userLeft > 0 && !s.draining {
			for _, o := range s.tasks {
				if o.state == tsBlocked {
					s.aborting = true
					s.dead = true
					s.AbortWhy = "deadlock"
					next = o
					break
				}
			}
		}
	}
	if next == nil {
		raceDisable()
		s.mainWake <- struct{}{}
		raceEnable()
		return
	}
	s.cur = next
	s.St.Switches++
	raceDisable()
	next.resume <- struct{}{}
	raceEnable()
}

const drainBudget = 4000

// endRun is called by a goroutine of the library when the run is over
// (quiescence or drain budget): the main goroutine is woken and the task
// parks until a later run schedules it again.
//
//go:norace
func (s *Sim) endRun(t *Task) {
	raceDisable()
	s.mainWake <- struct{}{}
	<-t.resume
	raceEnable()
	if s.aborting {
		panic(abortPanic{s.AbortWhy})
	}
}

//go:norace
func (s *Sim) anyBlocked() bool {
	for _, o := range s.tasks {
		if o.state == tsBlocked {
			return true
		}
	}
	return false
}

//go:norace
func (s *Sim) switchTo(t, next *Task) {
	s.cur = next
	s.St.Switches++
	s.ev("sw", t.ID, next.ID)
	raceDisable()
	next.resume <- struct{}{}
	<-t.resume
	raceEnable()
	if s.aborting {
		panic(abortPanic{s.AbortWhy})
	}
}

//go:norace
func (s *Sim) abort(why string) {
	if !s.aborting {
		s.aborting = true
		s.dead = true
		s.AbortWhy = why
	}
	panic(abortPanic{why})
}

// SchedPoint is a voluntary scheduling point (operation boundary or
// simulated sync operation). kind/obj feed the interleaving signature.
//
//go:norace
func SchedPoint(kind byte, obj int) {
	s := S
	if s == nil || s.aborting || s.cur == nil || s.cur.quiet > 0 {
		return
	}
	t := s.cur
	s.St.SchedPoints++
	clockJump(s)
	if nTimers > 0 {
		if nTimers > maxTimers/4 {
			advanceToTimer() // many pending timers: time passes (always legal), the earliest becomes due
		}
		s.fireDue()
	}
	t.sinceSP = 0
	s.sig(t.ID, kind, obj)
	next := s.pickNext(t)
	if next != nil && next != t {
		s.switchTo(t, next)
	}
}

var calmPoints int64

const calmBudget = 20000000

// CalmReset starts a new calm evaluation (step budget).
//
//go:norace
func CalmReset() { calmPoints = 0 }

// Point is compiled in front of every statement of the library copy.
//
//go:norace
func Point(id int) {
	s := S
	if s == nil {
		// calm mode: no scheduler, but still a step budget, so that a
		// library call that never finishes ends as a panic value instead of
		// hanging the worker
		calmPoints++
		if calmPoints > calmBudget {
			calmPoints = 0
			panic("cvss-sim: calm evaluation exceeded its step budget (library call does not finish)")
		}
		return
	}
	t := s.cur
	if t == nil || t.quiet > 0 {
		return
	}
	s.St.Points++
	t.Points++
	simClock += s.cfg.TickNs
	if s.PointHit != nil && id < len(s.PointHit) {
		s.PointHit[id]++
	}
	if s.aborting {
		return
	}
	if s.draining {
		s.drainLeft--
		if s.drainLeft <= 0 {
			s.drainLeft = drainBudget
			s.endRun(t) // still busy: it goes on in the next run
		}
		return
	}
	if t.countdown > 0 {
		t.countdown--
		if t.countdown == 0 {
			t.nextGap()
			s.preempt(t, id)
			return
		}
	}
	t.sinceSP++
	if t.sinceSP > s.cfg.Quantum {
		t.sinceSP = 0
		s.St.QuantumYields++
		s.sig(t.ID, 'q', id)
		others := s.runnable(t)
		if len(others) > 0 {
			s.switchTo(t, others[int(s.St.QuantumYields)%len(others)])
		}
	}
	if s.St.Points > s.cfg.MaxPoints {
		s.abort("no-progress")
	}
}

//go:norace
func (s *Sim) preempt(t *Task, id int) {
	others := s.runnable(t)
	c := s.nextPre()
	if s.cfg.GCPre && s.St.GCForced < 2 {
		s.St.GCForced++
		runtime.GC() // a collection starts here, in the middle of a library call
	}
	if len(others) == 0 {
		return
	}
	s.St.Preemptions++
	s.St.PreemptInLib++

	if len(s.PreemptAt) < 64 {
		s.PreemptAt = append(s.PreemptAt, id)
	}
	s.sig(t.ID, 'p', id)
	t.sinceSP = 0
	s.ev("pre", t.ID, id)
	if c == SchedNext {
		next := others[0]
		for _, o := range others {
			if o.ID > t.ID {
				next = o
				break
			}
		}
		s.switchTo(t, next)
		return
	}
	s.switchTo(t, others[int(c)%len(others)])
}

// block parks the current task until another task wakes it. The caller
// re-checks its condition afterwards.
//
//go:norace
func (s *Sim) block(t *Task) {
	t.state = tsBlocked
	for {
		next := s.pickNext(nil)
		if next != nil {
			s.switchTo(t, next)
			return
		}
		if s.draining {
			// quiescent: the run is over; this task stays blocked until somebody wakes it
			s.endRun(t)
			if t.state == tsRunnable {
				return
			}
			continue
		}
		// everybody waits: if a timer is pending, time passes until it is due
		if !advanceToTimer() {
			t.state = tsRunnable
			s.abort("deadlock")
		}
		s.fireDue()
		if t.state == tsRunnable {
			return // the timer woke this very task
		}
	}
}

//go:norace
func wake(t *Task) {
	if t.state == tsBlocked {
		t.state = tsRunnable
	}
}

// Go runs fn as a new simulated task (rewritten `go` statements).
func Go(fn func()) {
	s := curSim()
	if s == nil {
		// outside a run (package initialisation, or a plain calm call):
		// the goroutine becomes a task of the world and starts with the next run
		w := deferredWorld()
		if w == nil {
			fn() // unwinding an aborted run: run inline
			return
		}
		t := w.spawnDeferred(fn)
		go t.main(w)
		return
	}
	t := s.spawn(fn)
	go t.main(s) // real creation edge parent -> child, as for a go statement
	SchedPoint('g', t.ID)
}

//go:norace
func deferredWorld() *Sim {
	if S != nil {
		return nil // a run is being unwound
	}
	if world == nil || world.dead {
		New(Config{}, 0, false)
	}
	return world
}

//go:norace
func (s *Sim) spawnDeferred(fn func()) *Task {
	if len(s.tasks) >= maxTasks {
		panic("cvss-sim: too many goroutines started outside a run")
	}
	t := &Task{ID: len(s.tasks), fn: fn, resume: make(chan struct{}), fin: make(chan struct{}), LastPoolStale: -1}
	s.tasks = append(s.tasks, t)
	return t
}

// compact drops finished tasks from the table (ids are renumbered).
//
//go:norace
func (s *Sim) compact() {
	n := 0
	for _, t := range s.tasks {
		if t.state != tsDone {
			t.ID = n
			s.tasks[n] = t
			n++
		}
	}
	for i := n; i < len(s.tasks); i++ {
		s.tasks[i] = nil
	}
	s.tasks = s.tasks[:n]
}

//go:norace
func curSim() *Sim {
	if S == nil || S.aborting {
		return nil
	}
	return S
}

//go:norace
func (s *Sim) spawn(fn func()) *Task {
	if len(s.tasks) >= maxTasks {
		s.compact()
	}
	if len(s.tasks) >= maxTasks {
		s.abort("too-many-goroutines")
	}
	t := &Task{ID: len(s.tasks), fn: fn, resume: make(chan struct{}), fin: make(chan struct{}), LastPoolStale: -1}
	s.tasks = append(s.tasks, t)
	s.St.Spawned++
	s.ev("go", s.cur.ID, t.ID)
	return t
}

// ---------------------------------------------------------------- Pool

type poolItem struct {
	x     any
	tok   uint64 // address used for the Put -> Get edge
	stale int
	ident uintptr
}

const poolCap = 64

type outEntry struct {
	ident uintptr
	task  int
}

// PoolState is the state behind one simulated sync.Pool.
type PoolState struct {
	id    int
	items []*poolItem // cap poolCap, never grows (a full pool drops, as the real one may)
	out   []outEntry  // items handed out and not yet put back (cap poolCap)
	nOut  int
}

//go:norace
func (p *PoolState) reset() {
	for i := range p.items {
		p.items[i] = nil
	}
	p.items = p.items[:0]
	p.out = p.out[:0]
	p.nOut = 0
}

//go:norace
func (p *PoolState) outFind(id uintptr) int {
	for i := range p.out {
		if p.out[i].ident == id {
			return i
		}
	}
	return -1
}

//go:norace
func (p *PoolState) outAdd(id uintptr, task int) (dup bool) {
	if i := p.outFind(id); i >= 0 {
		p.out[i].task = task
		return true
	}
	if len(p.out) < cap(p.out) {
		p.out = append(p.out, outEntry{id, task})
	}
	return false
}

//go:norace
func (p *PoolState) outDel(id uintptr) {
	if i := p.outFind(id); i >= 0 {
		last := len(p.out) - 1
		p.out[i] = p.out[last]
		p.out = p.out[:last]
	}
}

//go:norace
func (p *PoolState) removeItem(idx int) {
	n := len(p.items)
	for i := idx; i+1 < n; i++ {
		p.items[i] = p.items[i+1]
	}
	p.items[n-1] = nil
	p.items = p.items[:n-1]
}

//go:norace
func poolState(pp **PoolState) *PoolState {
	if *pp == nil {
		*pp = &PoolState{id: len(allPools), items: make([]*poolItem, 0, poolCap), out: make([]outEntry, 0, poolCap)}
		if len(allPools) < cap(allPools) {
			allPools = append(allPools, *pp)
		}
	}
	return *pp
}

func identOf(x any) uintptr {
	v := reflect.ValueOf(x)
	switch v.Kind() {
	case reflect.Slice:
		if v.Len() == 0 && v.Cap() == 0 {
			return 0
		}
		return uintptr(v.UnsafePointer())
	case reflect.Pointer, reflect.Map, reflect.UnsafePointer:
		return uintptr(v.UnsafePointer())
	}
	return 0
}

// staleOf measures how much content an idle pooled object still carries:
// the number of non-zero elements of a slice/array (through one pointer).
//
//go:norace
func staleOf(x any) int {
	v := reflect.ValueOf(x)
	if v.Kind() == reflect.Pointer && !v.IsNil() {
		v = v.Elem()
	}
	switch v.Kind() {
	case reflect.Slice, reflect.Array:
		n := 0
		// look at the full capacity of a slice: that is what the next user can reach
		if v.Kind() == reflect.Slice && v.Cap() > v.Len() {
			v = v.Slice(0, v.Cap())
		}
		for i := 0; i < v.Len(); i++ {
			if !v.Index(i).IsZero() {
				n++
			}
		}
		return n
	}
	return 0
}

// Pool decision encoding (low 3 bits of a PoolDec byte).
const (
	PdLIFO = iota
	PdFIFO
	PdMiss
	PdStalest
	PdIndex
	PdClear
)

// PoolGet implements Pool.Get up to the call of New.
//
//go:norace
func PoolGet(pp **PoolState) (any, bool) {
	s := S
	if s == nil || s.aborting || s.cur == nil || s.cur.quiet > 0 || s.cfg.Calm {
		return nil, false // calm mode: every Get misses, every buffer is fresh
	}
	p := poolState(pp)
	SchedPoint('G', p.id)
	t := s.cur
	s.St.PoolGets++
	d := s.nextPool()
	overlap := p.nOut > 0
	if overlap {
		s.St.PoolOverlap++
	}
	t.LastPoolStale = -1
	if len(p.items) == 0 {
		s.St.PoolMissEmpty++
		if overlap {
			s.St.PoolMissOverlap++
		}
		s.ev("gm", t.ID, p.id)
		return nil, false
	}
	idx := len(p.items) - 1
	switch d & 7 {
	case PdFIFO:
		idx = 0
	case PdMiss:
		s.St.PoolMissForced++
		if overlap {
			s.St.PoolMissOverlap++
		}
		s.ev("gf", t.ID, p.id)
		return nil, false
	case PdStalest:
		best := -1
		for i, it := range p.items {
			if it.stale > best {
				best, idx = it.stale, i
			}
		}
	case PdIndex:
		idx = int(d>>3) % len(p.items)
	case PdClear:
		s.clearPools()
		s.St.PoolMissForced++
		s.ev("gc", t.ID, p.id)
		return nil, false
	}
	if idx != len(p.items)-1 {
		s.St.PoolNonLIFO++
	}
	it := p.items[idx]
	p.removeItem(idx)
	s.St.PoolHits++
	if it.stale > 0 {
		s.St.PoolStaleHits++
	}
	t.LastPoolStale = it.stale
	if it.ident != 0 {
		if p.outAdd(it.ident, t.ID) {
			s.St.PoolAliasHits++ // the same object is now in two hands (it was Put twice)
		}
	}
	p.nOut++
	t.holding++
	s.ev("gh", t.ID, idx)
	raceAcquire(unsafe.Pointer(&it.tok)) // Put(x) happens before the Get that returns x
	return it.x, true
}

// PoolNew is called when Get falls through to New.
//
//go:norace
func PoolNew(pp **PoolState, x any) {
	s := S
	if s == nil || s.aborting || s.cur == nil || s.cur.quiet > 0 || s.cfg.Calm {
		return
	}
	p := poolState(pp)
	s.St.PoolNew++
	if id := identOf(x); id != 0 {
		p.outAdd(id, s.cur.ID)
	}
	p.nOut++
	s.cur.holding++
}

// PoolPut implements Pool.Put.
//
//go:norace
func PoolPut(pp **PoolState, x any) {
	s := S
	if s == nil || s.cur == nil || s.cur.quiet > 0 || s.cfg.Calm {
		return // calm mode: dropped
	}
	p := poolState(pp)
	t := s.cur
	if !s.aborting {
		SchedPoint('P', p.id)
		t = s.cur
	}
	s.St.PoolPuts++
	id := identOf(x)
	if id != 0 {
		p.outDel(id)
	}
	if p.nOut > 0 {
		p.nOut--
	}
	if t.holding > 0 {
		t.holding--
	}
	d := s.nextPool()
	switch d & 7 {
	case 1:
		s.St.PoolDrops++
		s.ev("pd", t.ID, p.id)
		return
	case PdClear:
		s.clearPools()
	}
	if len(p.items) >= cap(p.items) {
		s.St.PoolDrops++ // full: dropping is always legal
		s.ev("pd", t.ID, p.id)
		return
	}
	it := &poolItem{x: x, ident: id, stale: staleOf(x)}
	raceRelease(unsafe.Pointer(&it.tok))
	p.items = append(p.items, it)
	s.ev("pk", t.ID, len(p.items))
}

//go:norace
func (s *Sim) clearPools() {
	s.St.PoolClears++
	for _, p := range allPools {
		for i := range p.items {
			p.items[i] = nil
		}
		p.items = p.items[:0]
	}
}

// PoolIdle returns the number of idle items over all pools (evidence).
//
//go:norace
func PoolIdle() int {
	n := 0
	for _, p := range allPools {
		n += len(p.items)
	}
	return n
}

// PoolOutstanding returns the number of items taken and not put back.
//
//go:norace
func PoolOutstanding() int {
	n := 0
	for _, p := range allPools {
		n += p.nOut
	}
	return n
}

// ---------------------------------------------------------------- Mutex / RWMutex

// WaitList is a fixed-capacity list of parked tasks.
type WaitList struct {
	t [waitCap]*Task
	n int
}

//go:norace
func (w *WaitList) add(t *Task) {
	for i := 0; i < w.n; i++ {
		if w.t[i] == t {
			return
		}
	}
	if w.n < len(w.t) {
		w.t[w.n] = t
		w.n++
		return
	}
	// cannot happen while waitCap >= maxTasks; a dropped waiter would never be
	// woken and the run would end as a bogus deadlock
	if S != nil {
		S.abort("too-many-waiters")
	}
}

//go:norace
func (w *WaitList) wakeAll() {
	for i := 0; i < w.n; i++ {
		wake(w.t[i])
		w.t[i] = nil
	}
	w.n = 0
}

//go:norace
func (w *WaitList) clear() {
	for i := 0; i < w.n; i++ {
		w.t[i] = nil
	}
	w.n = 0
}

// MutexState is the state behind a simulated Mutex or RWMutex.
type MutexState struct {
	id      int
	writer  bool
	readers int
	wWait   int // writers blocked in Lock: like the real RWMutex, a pending writer keeps NEW readers out (a recursive read lock deadlocks once a writer arrives in between)
	waiters WaitList
	wTok    uint64
	rTok    uint64
	reg     bool
}

var allMutex = make([]*MutexState, 0, 4096)

//go:norace
func mutexState(pp **MutexState) *MutexState {
	if *pp == nil {
		*pp = &MutexState{id: len(allMutex)}
		if len(allMutex) < cap(allMutex) {
			allMutex = append(allMutex, *pp)
		}
	}
	return *pp
}

//go:norace
func resetMutexes() {
	for _, m := range allMutex {
		m.writer, m.readers = false, 0
		m.waiters.clear()
	}
}

func init() { RegisterReset(resetMutexes) }

//go:norace
func (m *MutexState) wakeAll() { m.waiters.wakeAll() }

// Lock acquires the write lock.
//
//go:norace
func Lock(pp **MutexState) {
	m := mutexState(pp)
	s := S
	if s == nil || s.cur == nil {
		m.writer = true
		return
	}
	if s.aborting {
		return
	}
	s.St.LockOps++
	SchedPoint('L', m.id)
	for m.writer || m.readers > 0 {
		t := s.cur
		m.waiters.add(t)
		s.St.LockBlocks++
		s.ev("lb", t.ID, m.id)
		m.wWait++
		s.block(t)
		m.wWait--
	}
	m.writer = true
	s.ev("lk", s.cur.ID, m.id)
	raceAcquire(unsafe.Pointer(&m.wTok))
	raceAcquire(unsafe.Pointer(&m.rTok))
}

// TryLock tries to acquire the write lock.
//
//go:norace
func TryLock(pp **MutexState) bool {
	m := mutexState(pp)
	s := S
	if s != nil && s.cur != nil && !s.aborting {
		s.St.LockOps++
		SchedPoint('L', m.id)
	}
	if m.writer || m.readers > 0 {
		return false
	}
	m.writer = true
	raceAcquire(unsafe.Pointer(&m.wTok))
	raceAcquire(unsafe.Pointer(&m.rTok))
	return true
}

// Unlock releases the write lock. ok=false: it was not locked.
//
//go:norace
func Unlock(pp **MutexState) bool {
	m := mutexState(pp)
	s := S
	if s == nil || s.cur == nil {
		was := m.writer
		m.writer = false
		return was
	}
	if s.aborting {
		m.writer = false
		return true
	}
	if !m.writer {
		return false
	}
	raceRelease(unsafe.Pointer(&m.wTok))
	m.writer = false
	m.wakeAll()
	s.ev("ul", s.cur.ID, m.id)
	SchedPoint('U', m.id)
	return true
}

// RLock acquires a read lock.
//
//go:norace
func RLock(pp **MutexState) {
	m := mutexState(pp)
	s := S
	if s == nil || s.cur == nil {
		m.readers++
		return
	}
	if s.aborting {
		return
	}
	s.St.LockOps++
	SchedPoint('R', m.id)
	for m.writer || m.wWait > 0 {
		t := s.cur
		m.waiters.add(t)
		s.St.LockBlocks++
		s.block(t)
	}
	m.readers++
	s.ev("rl", s.cur.ID, m.id)
	raceAcquire(unsafe.Pointer(&m.wTok))
}

// TryRLock tries to acquire a read lock.
//
//go:norace
func TryRLock(pp **MutexState) bool {
	m := mutexState(pp)
	s := S
	if s != nil && s.cur != nil && !s.aborting {
		s.St.LockOps++
		SchedPoint('R', m.id)
	}
	if m.writer || m.wWait > 0 {
		return false
	}
	m.readers++
	raceAcquire(unsafe.Pointer(&m.wTok))
	return true
}

// RUnlock releases a read lock.
//
//go:norace
func RUnlock(pp **MutexState) bool {
	m := mutexState(pp)
	s := S
	if s == nil || s.cur == nil {
		if m.readers == 0 {
			return false
		}
		m.readers--
		return true
	}
	if s.aborting {
		if m.readers > 0 {
			m.readers--
		}
		return true
	}
	if m.readers == 0 {
		return false
	}
	raceRelMerge(unsafe.Pointer(&m.rTok))
	m.readers--
	if m.readers == 0 {
		m.wakeAll()
	}
	s.ev("ru", s.cur.ID, m.id)
	SchedPoint('u', m.id)
	return true
}

// ---------------------------------------------------------------- Once

// OnceState is the state behind a simulated Once.
type OnceState struct {
	id      int
	done    bool
	running bool
	waiters WaitList
	tok     uint64
}

var nOnce int

// OnceDo implements Once.Do. Once state is *not* reset between runs: a real
// process initialises once, too; the harness learns about it through O1.
//
//go:norace
func onceState(pp **OnceState) *OnceState {
	if *pp == nil {
		*pp = &OnceState{id: nOnce}
		nOnce++
	}
	return *pp
}

// OnceBegin returns true if the caller must run f and then call OnceEnd.
//
//go:norace
func OnceBegin(pp **OnceState) bool {
	o := onceState(pp)
	s := S
	sim := s != nil && s.cur != nil && !s.aborting
	if sim {
		s.St.OnceOps++
		SchedPoint('O', o.id)
	}
	for o.running && !o.done {
		if !sim {
			// calm mode or unwinding: cannot wait; treat as done
			return false
		}
		t := s.cur
		o.waiters.add(t)
		s.block(t)
	}
	if o.done {
		raceAcquire(unsafe.Pointer(&o.tok))
		return false
	}
	o.running = true
	return true
}

// OnceEnd marks f as completed (also when f panicked, as the real Once does).
//
//go:norace
func OnceEnd(pp **OnceState) {
	o := onceState(pp)
	raceRelease(unsafe.Pointer(&o.tok))
	o.done = true
	o.running = false
	o.waiters.wakeAll()
}

// ---------------------------------------------------------------- generic sync events (Map, WaitGroup, Cond)

// SyncPoint is a scheduling point of another simulated primitive.
//
//go:norace
func SyncPoint(kind byte, obj int) {
	s := S
	if s == nil || s.cur == nil || s.aborting {
		return
	}
	s.St.MapOps++
	SchedPoint(kind, obj)
}

// Acquire / Release / ReleaseMerge publish happens-before edges of simulated
// primitives implemented outside this package.
func Acquire(p unsafe.Pointer)      { raceAcquire(p) }
func Release(p unsafe.Pointer)      { raceRelease(p) }
func ReleaseMerge(p unsafe.Pointer) { raceRelMerge(p) }

// WaitUntil blocks the current task until cond() holds; other tasks must call
// WakeAll(list) after changing the condition.
//
//go:norace
func WaitUntil(list *WaitList, cond func() bool) {
	s := S
	for !cond() {
		if s == nil || s.cur == nil || s.aborting {
			return
		}
		t := s.cur
		list.add(t)
		s.block(t)
	}
}

//go:norace
func WakeAll(list *WaitList) { list.wakeAll() }

// ---------------------------------------------------------------- environment seams

// The simulated clock survives between runs (it never goes back), as a wall
// clock would; calm-mode reads see its latest value.
var simClock int64
var clockJumpPos int
var randState uint64 = 0x9e3779b97f4a7c15
var lastNumCPU = procNumCPU()

// procNumCPU: what runtime.NumCPU/GOMAXPROCS answer before the first run, i.e.
// while the library's package-level variables are initialised (that happens
// before the worker's main). The orchestrator seeds it per worker process
// through the environment; a replay file records it.
func procNumCPU() int {
	switch os.Getenv("VSIM_NCPU") {
	case "1":
		return 1
	case "2":
		return 2
	case "16":
		return 16
	}
	return 4
}

//go:norace
func ClockRead() int64 {
	s := S
	if s != nil && s.cur != nil && s.cur.quiet == 0 && !s.aborting {
		s.St.ClockReads++
	}
	return simClock
}

//go:norace
func clockTick(s *Sim) { simClock += s.cfg.TickNs }

//go:norace
func clockJump(s *Sim) {
	if s.jumpPos < len(s.cfg.ClockJumps) {
		simClock += s.cfg.ClockJumps[s.jumpPos]
		s.jumpPos++
	}
}

// ClockSleep is time.Sleep: the task blocks until the simulated clock has
// reached its wake-up time (a timer); if everybody is blocked the clock jumps
// to the earliest timer. Outside a run the clock simply advances.
//
//go:norace
func ClockSleep(d int64) {
	s := S
	if s == nil || s.cur == nil || s.aborting {
		if d > 0 {
			simClock += d
		}
		return
	}
	if d <= 0 {
		SyncPoint('s', 0)
		return
	}
	t := s.cur
	tm := &SimTimer{at: simClock + d, wakeT: t, active: true, seq: timerSeq}
	timerSeq++
	addTimer(tm)
	SyncPoint('s', 0)
	for !tm.fired {
		s.block(t)
	}
}

//go:norace
func NumCPU() int {
	if S != nil && S.cfg.NumCPU > 0 {
		lastNumCPU = S.cfg.NumCPU
	}
	return lastNumCPU
}

//go:norace
func NumTasks() int {
	if S == nil {
		return 1
	}
	n := 0
	for _, t := range S.tasks {
		if t.state != tsDone {
			n++
		}
	}
	return n
}

// GCClear is runtime.GC() for the simulation: the pools are emptied.
//
//go:norace
func GCClear() {
	if S != nil && !S.aborting {
		S.clearPools()
		SyncPoint('c', 0)
	}
}

//go:norace
func RandSeed(v uint64) { randState = v }

//go:norace
func RandNext() uint64 {
	if S != nil && S.cur != nil && !S.aborting {
		S.St.RandDraws++
	}
	randState += 0x9e3779b97f4a7c15
	z := randState
	z = (z ^ (z >> 30)) * 0xbf58476d1ce4e5b9
	z = (z ^ (z >> 27)) * 0x94d049bb133111eb
	return z ^ (z >> 31)
}

// RunCalm runs fn as the only caller task of a trivial simulation when called
// outside a run (reference evaluations of a library that starts goroutines or
// uses channels need a scheduler to block and wake tasks); inside a run it
// just calls fn. It returns the reason if the simulation had to be aborted
// (deadlock, no progress).
func RunCalm(fn func()) string {
	if insideRun() {
		fn()
		return ""
	}
	s := New(Config{Calm: true, MaxPoints: calmBudget}, 0, false)
	s.AddTask(fn)
	s.Run()
	return s.why()
}

//go:norace
func insideRun() bool { return S != nil }

//go:norace
func (s *Sim) why() string { return s.AbortWhy }
