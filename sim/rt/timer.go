package rt

// Simulated timers (discrete-event time): a timer fires when the simulated
// clock has reached its deadline. The clock advances with executed statements
// and seeded jumps (Config.TickNs, ClockJumps), by Sleep, and - when every
// task is blocked and a timer is pending - by jumping to the earliest
// deadline, so that minute-long timeouts cost nothing.

// SimTimer is the state behind time.Timer / time.AfterFunc / time.Ticker.
type SimTimer struct {
	at     int64
	period int64           // > 0: ticker
	f      func()          // AfterFunc: runs as a new task
	onFire func(now int64) // channel timers: a non-blocking send of the fire time
	wakeT  *Task           // Sleep: the sleeping task
	fired  bool
	active bool
	seq    int
}

const maxTimers = 256

var timers [maxTimers]*SimTimer
var nTimers int
var timerSeq int

//go:norace
func resetTimers() {
	for i := 0; i < nTimers; i++ {
		timers[i] = nil
	}
	nTimers = 0
}

func init() { RegisterReset(resetTimers) } // only used after an aborted run

// NewSimTimer registers a timer that fires d nanoseconds from now.
//
//go:norace
func NewSimTimer(d, period int64, f func(), onFire func(now int64)) *SimTimer {
	t := &SimTimer{at: simClock + d, period: period, f: f, onFire: onFire, active: true, seq: timerSeq}
	timerSeq++
	addTimer(t)
	return t
}

//go:norace
func addTimer(t *SimTimer) {
	if nTimers >= maxTimers {
		if S != nil {
			S.abort("too-many-timers")
		}
		return
	}
	timers[nTimers] = t
	nTimers++
}

// Stop deactivates the timer; it reports whether it was active.
//
//go:norace
func (t *SimTimer) Stop() bool {
	was := t.active
	t.active = false
	for i := 0; i < nTimers; i++ {
		if timers[i] == t {
			timers[i] = timers[nTimers-1]
			timers[nTimers-1] = nil
			nTimers--
			break
		}
	}
	return was
}

// Reset re-arms the timer.
//
//go:norace
func (t *SimTimer) Reset(d int64) bool {
	was := t.Stop()
	t.at = simClock + d
	t.active = true
	addTimer(t)
	return was
}

// earliest returns the pending timer with the smallest (deadline, seq).
//
//go:norace
func earliestTimer() *SimTimer {
	var best *SimTimer
	for i := 0; i < nTimers; i++ {
		t := timers[i]
		if best == nil || t.at < best.at || (t.at == best.at && t.seq < best.seq) {
			best = t
		}
	}
	return best
}

// fireDue fires every timer whose deadline has passed: an AfterFunc becomes a
// new task, a channel timer gets its (non-blocking) send.
//
//go:norace
func (s *Sim) fireDue() {
	for {
		t := dueTimer()
		if t == nil {
			return
		}
		if t.f != nil {
			nt := s.spawn(t.f)
			go nt.main(s)
		} else if t.onFire != nil {
			t.onFire(simClock)
		} else if t.wakeT != nil {
			t.fired = true
			wake(t.wakeT)
		}
	}
}

//go:norace
func clockNow() int64 { return simClock }

//go:norace
func dueTimer() *SimTimer {
	if nTimers == 0 || S == nil || S.aborting {
		return nil
	}
	t := earliestTimer()
	if t == nil || t.at > simClock {
		return nil
	}
	if t.period > 0 {
		t.at += t.period
		if t.at <= simClock {
			t.at = simClock + t.period
		}
	} else {
		t.Stop()
	}
	S.St.TimersFired++
	return t
}

// advanceToTimer: every task is blocked; if a timer is pending, jump the clock
// to its deadline and report true (the caller then fires it).
//
//go:norace
func advanceToTimer() bool {
	t := earliestTimer()
	if t == nil {
		return false
	}
	if t.at > simClock {
		simClock = t.at
	}
	return true
}

// TrySend is a non-blocking send (timer channels have capacity 1 and drop
// ticks nobody is waiting for, as the real ones do).
//
//go:norace
func (c *Chan[T]) TrySend(v T) {
	if c.closed {
		return
	}
	if r := c.popR(); r != nil {
		r.v, r.ok = v, true
		fire(r)
		return
	}
	if len(c.buf) < c.capacity {
		c.buf = append(c.buf, v)
		c.wl.wakeAll()
	}
}
