// Package runtime is the simulated twin of the parts of package runtime that
// library code may reasonably touch: yielding, CPU counts (seeded per run),
// GC (which, for the simulation, empties the simulated pools) and stack
// introspection (real). Finalizers and anything else are not provided.
package runtime

import (
	rr "runtime"

	sim "github.com/pandatix/go-cvss/verifsim/rt"
)

type (
	Error    = rr.Error
	Frame    = rr.Frame
	Frames   = rr.Frames
	Func     = rr.Func
	MemStats = rr.MemStats
)

const (
	GOOS     = rr.GOOS
	GOARCH   = rr.GOARCH
	Compiler = rr.Compiler
)

func Gosched()                                                     { sim.SyncPoint('y', 0) }
func NumCPU() int                                                  { return sim.NumCPU() }
func GOMAXPROCS(n int) int                                         { return sim.NumCPU() }
func NumGoroutine() int                                            { return sim.NumTasks() }
func GC()                                                          { sim.GCClear() }
func KeepAlive(x any)                                              { rr.KeepAlive(x) }
func Version() string                                              { return rr.Version() }
func Caller(skip int) (pc uintptr, file string, line int, ok bool) { return rr.Caller(skip + 1) }
func Callers(skip int, pc []uintptr) int                           { return rr.Callers(skip+1, pc) }
func CallersFrames(callers []uintptr) *Frames                      { return rr.CallersFrames(callers) }
func FuncForPC(pc uintptr) *Func                                   { return rr.FuncForPC(pc) }
func Stack(buf []byte, all bool) int                               { return rr.Stack(buf, false) }
func ReadMemStats(m *MemStats)                                     { rr.ReadMemStats(m) }
