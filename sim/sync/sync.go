// Package sync is the simulated twin of the standard sync package. The
// instrumenter rewrites `import "sync"` in the library copy to this package.
// Every operation is a scheduling point of cvss-sim and publishes exactly the
// happens-before edges its real counterpart guarantees.
package sync

import (
	"unsafe"

	"github.com/pandatix/go-cvss/verifsim/rt"
)

// A Locker represents an object that can be locked and unlocked.
type Locker interface {
	Lock()
	Unlock()
}

// ------------------------------------------------------------------ Pool

// Pool is a simulated sync.Pool: which idle item a Get returns (or whether it
// misses), and whether a Put is kept, is decided by the run's seeded fault
// plan; only behaviours the real pool may show are produced.
type Pool struct {
	New func() any
	st  *rt.PoolState
}

func (p *Pool) Get() any {
	if x, ok := rt.PoolGet(&p.st); ok {
		return x
	}
	if p.New != nil {
		x := p.New()
		rt.PoolNew(&p.st, x)
		return x
	}
	return nil
}

func (p *Pool) Put(x any) {
	if x == nil {
		return
	}
	rt.PoolPut(&p.st, x)
}

// ------------------------------------------------------------------ Mutex

type Mutex struct {
	st *rt.MutexState
}

func (m *Mutex) Lock()         { rt.Lock(&m.st) }
func (m *Mutex) TryLock() bool { return rt.TryLock(&m.st) }
func (m *Mutex) Unlock() {
	if !rt.Unlock(&m.st) {
		panic("sync: unlock of unlocked mutex")
	}
}

type RWMutex struct {
	st *rt.MutexState
}

func (m *RWMutex) Lock()          { rt.Lock(&m.st) }
func (m *RWMutex) TryLock() bool  { return rt.TryLock(&m.st) }
func (m *RWMutex) RLock()         { rt.RLock(&m.st) }
func (m *RWMutex) TryRLock() bool { return rt.TryRLock(&m.st) }
func (m *RWMutex) Unlock() {
	if !rt.Unlock(&m.st) {
		panic("sync: Unlock of unlocked RWMutex")
	}
}
func (m *RWMutex) RUnlock() {
	if !rt.RUnlock(&m.st) {
		panic("sync: RUnlock of unlocked RWMutex")
	}
}

type rlocker RWMutex

func (r *rlocker) Lock()   { (*RWMutex)(r).RLock() }
func (r *rlocker) Unlock() { (*RWMutex)(r).RUnlock() }

func (m *RWMutex) RLocker() Locker { return (*rlocker)(m) }

// ------------------------------------------------------------------ Once

type Once struct {
	st *rt.OnceState
}

func (o *Once) Do(f func()) {
	if rt.OnceBegin(&o.st) {
		defer rt.OnceEnd(&o.st)
		f()
	}
}

func OnceFunc(f func()) func() {
	var once Once
	var valid bool
	var p any
	g := func() {
		defer func() {
			p = recover()
			if !valid {
				panic(p)
			}
		}()
		f()
		f = nil
		valid = true
	}
	return func() {
		once.Do(g)
		if !valid {
			panic(p)
		}
	}
}

func OnceValue[T any](f func() T) func() T {
	var once Once
	var valid bool
	var p any
	var result T
	g := func() {
		defer func() {
			p = recover()
			if !valid {
				panic(p)
			}
		}()
		result = f()
		f = nil
		valid = true
	}
	return func() T {
		once.Do(g)
		if !valid {
			panic(p)
		}
		return result
	}
}

func OnceValues[T1, T2 any](f func() (T1, T2)) func() (T1, T2) {
	var once Once
	var valid bool
	var p any
	var r1 T1
	var r2 T2
	g := func() {
		defer func() {
			p = recover()
			if !valid {
				panic(p)
			}
		}()
		r1, r2 = f()
		f = nil
		valid = true
	}
	return func() (T1, T2) {
		once.Do(g)
		if !valid {
			panic(p)
		}
		return r1, r2
	}
}

// ------------------------------------------------------------------ Map

type mapEntry struct {
	k, v any
	tok  uint64
	next *mapEntry
	dead bool
}

// Map is a simulated sync.Map (insertion-ordered, so Range is deterministic;
// the real Range order is unspecified, hence any order is a legal one). It is
// a linked list: simulator state must not use maps or growing slices (see
// package rt).
type Map struct {
	head *mapEntry
	id   uint64
	// delTok carries the edge "a deletion synchronizes before a read that
	// observes the absence" (the documented guarantee covers every read that
	// observes a write's effect, also the effect of a Delete)
	delTok uint64
}

func (m *Map) sp(kind byte) { rt.SyncPoint(kind, int(uintptr(unsafe.Pointer(m))&0xffff)) }

//go:norace
func (m *Map) find(k any) (int, *mapEntry) {
	i := 0
	for e := m.head; e != nil; e = e.next {
		if e.k == k {
			return i, e
		}
		i++
	}
	return -1, nil
}

//go:norace
func (m *Map) push(e *mapEntry) {
	if m.head == nil {
		m.head = e
		return
	}
	t := m.head
	for t.next != nil {
		t = t.next
	}
	t.next = e
}

//go:norace
func (m *Map) unlink(x *mapEntry) {
	rt.ReleaseMerge(unsafe.Pointer(&m.delTok))
	x.dead = true
	if m.head == x {
		m.head = x.next
		return
	}
	for e := m.head; e != nil; e = e.next {
		if e.next == x {
			e.next = x.next
			return
		}
	}
}

func (m *Map) Load(key any) (value any, ok bool) {
	m.sp('m')
	return m.load(key)
}

//go:norace
func (m *Map) load(key any) (any, bool) {
	if _, e := m.find(key); e != nil {
		rt.Acquire(unsafe.Pointer(&e.tok))
		return e.v, true
	}
	rt.Acquire(unsafe.Pointer(&m.delTok))
	return nil, false
}

func (m *Map) Store(key, value any) { _, _ = m.Swap(key, value) }

func (m *Map) Swap(key, value any) (previous any, loaded bool) {
	m.sp('M')
	return m.swap(key, value)
}

//go:norace
func (m *Map) swap(key, value any) (any, bool) {
	if _, e := m.find(key); e != nil {
		rt.Acquire(unsafe.Pointer(&e.tok))
		prev := e.v
		e.v = value
		rt.Release(unsafe.Pointer(&e.tok))
		return prev, true
	}
	e := &mapEntry{k: key, v: value}
	rt.Release(unsafe.Pointer(&e.tok))
	m.push(e)
	return nil, false
}

func (m *Map) LoadOrStore(key, value any) (actual any, loaded bool) {
	m.sp('M')
	return m.loadOrStore(key, value)
}

//go:norace
func (m *Map) loadOrStore(key, value any) (any, bool) {
	if _, e := m.find(key); e != nil {
		rt.Acquire(unsafe.Pointer(&e.tok))
		return e.v, true
	}
	rt.Acquire(unsafe.Pointer(&m.delTok))
	e := &mapEntry{k: key, v: value}
	rt.Release(unsafe.Pointer(&e.tok))
	m.push(e)
	return value, false
}

func (m *Map) LoadAndDelete(key any) (value any, loaded bool) {
	m.sp('M')
	return m.loadAndDelete(key)
}

//go:norace
func (m *Map) loadAndDelete(key any) (any, bool) {
	if _, e := m.find(key); e != nil {
		rt.Acquire(unsafe.Pointer(&e.tok))
		m.unlink(e)
		return e.v, true
	}
	return nil, false
}

func (m *Map) Delete(key any) { m.LoadAndDelete(key) }

func (m *Map) CompareAndSwap(key, old, new any) bool {
	m.sp('M')
	return m.cas(key, old, new)
}

//go:norace
func (m *Map) cas(key, old, new any) bool {
	_, e := m.find(key)
	if e == nil {
		rt.Acquire(unsafe.Pointer(&m.delTok))
		return false
	}
	rt.Acquire(unsafe.Pointer(&e.tok)) // also a failed comparison observed a write
	if e.v == old {
		e.v = new
		rt.Release(unsafe.Pointer(&e.tok))
		return true
	}
	return false
}

func (m *Map) CompareAndDelete(key, old any) bool {
	m.sp('M')
	return m.cad(key, old)
}

//go:norace
func (m *Map) cad(key, old any) bool {
	_, e := m.find(key)
	if e == nil {
		rt.Acquire(unsafe.Pointer(&m.delTok))
		return false
	}
	rt.Acquire(unsafe.Pointer(&e.tok))
	if e.v == old {
		m.unlink(e)
		return true
	}
	return false
}

func (m *Map) Range(f func(key, value any) bool) {
	m.sp('m')
	for e := m.first(); e != nil; e = m.after(e) {
		k, v, ok := m.read(e)
		if !ok {
			continue
		}
		if !f(k, v) {
			break
		}
	}
}

//go:norace
func (m *Map) first() *mapEntry { return m.head }

//go:norace
func (m *Map) after(e *mapEntry) *mapEntry { return e.next }

//go:norace
func (m *Map) read(e *mapEntry) (any, any, bool) {
	if e.dead {
		return nil, nil, false
	}
	rt.Acquire(unsafe.Pointer(&e.tok))
	return e.k, e.v, true
}

func (m *Map) Clear() {
	m.sp('M')
	m.clear()
}

//go:norace
func (m *Map) clear() {
	rt.ReleaseMerge(unsafe.Pointer(&m.delTok))
	for e := m.head; e != nil; e = e.next {
		e.dead = true
	}
	m.head = nil
}

// ------------------------------------------------------------------ WaitGroup

// WaitGroup is simulated so that library code that spawns goroutines (run as
// simulated tasks) can wait for them.
type WaitGroup struct {
	n       int
	waiters rt.WaitList
	tok     uint64
}

func (wg *WaitGroup) Add(delta int) {
	rt.SyncPoint('w', 0)
	wg.add(delta)
}

//go:norace
func (wg *WaitGroup) add(delta int) {
	if delta < 0 {
		rt.ReleaseMerge(unsafe.Pointer(&wg.tok))
	}
	wg.n += delta
	if wg.n < 0 {
		panic("sync: negative WaitGroup counter")
	}
	if wg.n == 0 {
		rt.WakeAll(&wg.waiters)
	}
}

func (wg *WaitGroup) Done() { wg.Add(-1) }

func (wg *WaitGroup) Wait() {
	rt.SyncPoint('W', 0)
	wg.wait()
}

//go:norace
func (wg *WaitGroup) wait() {
	rt.WaitUntil(&wg.waiters, func() bool { return wg.n == 0 })
	rt.Acquire(unsafe.Pointer(&wg.tok))
}

// ------------------------------------------------------------------ Cond

// Cond is a simulated sync.Cond with the ticket semantics of the real one:
// a Signal wakes the longest-waiting Wait that started before it, a Broadcast
// all of them; a Wait that starts afterwards is not woken.
type Cond struct {
	L       Locker
	wait    uint64 // tickets handed out
	notify  uint64 // tickets notified
	waiters rt.WaitList
	tok     uint64
}

func NewCond(l Locker) *Cond { return &Cond{L: l} }

func (c *Cond) Wait() {
	t := c.ticket()
	c.L.Unlock()
	c.block(t)
	c.L.Lock()
}

//go:norace
func (c *Cond) ticket() uint64 {
	t := c.wait
	c.wait++
	return t
}

//go:norace
func (c *Cond) block(t uint64) {
	rt.SyncPoint('C', 0)
	rt.WaitUntil(&c.waiters, func() bool { return c.notify > t })
	rt.Acquire(unsafe.Pointer(&c.tok))
}

func (c *Cond) Signal() {
	rt.SyncPoint('c', 0)
	c.signal(false)
}

func (c *Cond) Broadcast() {
	rt.SyncPoint('c', 0)
	c.signal(true)
}

//go:norace
func (c *Cond) signal(all bool) {
	rt.ReleaseMerge(unsafe.Pointer(&c.tok))
	if all {
		c.notify = c.wait
	} else if c.notify < c.wait {
		c.notify++
	}
	rt.WakeAll(&c.waiters)
}

// Go calls f in a new (simulated) goroutine and adds it to the WaitGroup.
func (wg *WaitGroup) Go(f func()) {
	wg.Add(1)
	rt.Go(func() {
		defer wg.Done()
		f()
	})
}
