// Package time is the simulated twin of the standard time package for library
// code that reads the clock: Now, Since, Until and Sleep use the simulator's
// clock (advanced per executed statement and by seeded jumps, both part of
// the plan); types, constants and pure functions are the real ones. Timers and
// tickers are simulated, too (sim/rt/timer.go): they fire when the simulated
// clock has reached their deadline, and when every task is blocked the clock
// jumps to the earliest deadline.
package time

import (
	rt "time"

	sim "github.com/pandatix/go-cvss/verifsim/rt"
)

type (
	Time       = rt.Time
	Duration   = rt.Duration
	Month      = rt.Month
	Weekday    = rt.Weekday
	Location   = rt.Location
	ParseError = rt.ParseError
)

const (
	Nanosecond  = rt.Nanosecond
	Microsecond = rt.Microsecond
	Millisecond = rt.Millisecond
	Second      = rt.Second
	Minute      = rt.Minute
	Hour        = rt.Hour

	Layout      = rt.Layout
	ANSIC       = rt.ANSIC
	UnixDate    = rt.UnixDate
	RFC822      = rt.RFC822
	RFC1123     = rt.RFC1123
	RFC3339     = rt.RFC3339
	RFC3339Nano = rt.RFC3339Nano
	Kitchen     = rt.Kitchen
	DateTime    = rt.DateTime
	DateOnly    = rt.DateOnly
	TimeOnly    = rt.TimeOnly

	January   = rt.January
	February  = rt.February
	March     = rt.March
	April     = rt.April
	May       = rt.May
	June      = rt.June
	July      = rt.July
	August    = rt.August
	September = rt.September
	October   = rt.October
	November  = rt.November
	December  = rt.December

	Sunday    = rt.Sunday
	Monday    = rt.Monday
	Tuesday   = rt.Tuesday
	Wednesday = rt.Wednesday
	Thursday  = rt.Thursday
	Friday    = rt.Friday
	Saturday  = rt.Saturday
)

var (
	UTC   = rt.UTC
	Local = rt.UTC
)

// epoch of the simulated clock
var base = rt.Date(2026, 1, 1, 0, 0, 0, 0, rt.UTC)

func Now() Time                 { return base.Add(Duration(sim.ClockRead())) }
func Since(t Time) Duration     { return Now().Sub(t) }
func Until(t Time) Duration     { return t.Sub(Now()) }
func Sleep(d Duration)          { sim.ClockSleep(int64(d)) }
func Unix(sec, nsec int64) Time { return rt.Unix(sec, nsec) }
func UnixMilli(ms int64) Time   { return rt.UnixMilli(ms) }
func UnixMicro(us int64) Time   { return rt.UnixMicro(us) }
func Date(year int, month Month, day, hour, min, sec, nsec int, loc *Location) Time {
	return rt.Date(year, month, day, hour, min, sec, nsec, loc)
}
func Parse(layout, value string) (Time, error)    { return rt.Parse(layout, value) }
func ParseDuration(s string) (Duration, error)    { return rt.ParseDuration(s) }
func FixedZone(name string, offset int) *Location { return rt.FixedZone(name, offset) }
func LoadLocation(name string) (*Location, error) { return rt.LoadLocation(name) }

// ------------------------------------------------------------------ timers

// Timer is a simulated time.Timer. C carries the fire time.
type Timer struct {
	C  *sim.Chan[Time]
	st *sim.SimTimer
}

func sender(c *sim.Chan[Time]) func(now int64) {
	return func(now int64) { c.TrySend(base.Add(Duration(now))) }
}

func NewTimer(d Duration) *Timer {
	c := sim.NewChan[Time](1)
	return &Timer{C: c, st: sim.NewSimTimer(int64(d), 0, nil, sender(c))}
}

func (t *Timer) Stop() bool { return t.st.Stop() }

func (t *Timer) Reset(d Duration) bool { return t.st.Reset(int64(d)) }

func After(d Duration) *sim.Chan[Time] { return NewTimer(d).C }

func AfterFunc(d Duration, f func()) *Timer {
	return &Timer{st: sim.NewSimTimer(int64(d), 0, f, nil)}
}

// Ticker is a simulated time.Ticker.
type Ticker struct {
	C  *sim.Chan[Time]
	st *sim.SimTimer
}

func NewTicker(d Duration) *Ticker {
	if d <= 0 {
		panic("non-positive interval for NewTicker")
	}
	c := sim.NewChan[Time](1)
	return &Ticker{C: c, st: sim.NewSimTimer(int64(d), int64(d), nil, sender(c))}
}

func (t *Ticker) Stop() { t.st.Stop() }

func (t *Ticker) Reset(d Duration) {
	t.st.Stop()
	t.st = sim.NewSimTimer(int64(d), int64(d), nil, sender(t.C))
}

func Tick(d Duration) *sim.Chan[Time] {
	if d <= 0 {
		return nil
	}
	return NewTicker(d).C
}
