package main

// Version-independent access to the four packages of the library copy.
// Objects are handled through unsafe.Pointer so that they can live on the
// heap or in the write-protected page alike; equality is always the
// language's == on the value type.

import (
	"fmt"
	"math"
	"reflect"
	"unsafe"

	gocvss20 "github.com/pandatix/go-cvss/20"
	gocvss30 "github.com/pandatix/go-cvss/30"
	gocvss31 "github.com/pandatix/go-cvss/31"
	gocvss40 "github.com/pandatix/go-cvss/40"
)

type verAPI interface {
	Ver() int
	Size() uintptr
	New() unsafe.Pointer
	// NewSlab allocates n adjacent objects (one array) and returns them.
	NewSlab(n int) []unsafe.Pointer
	Parse(s string) (unsafe.Pointer, error)
	Set(p unsafe.Pointer, m, v string) error
	// SetOnStack performs the Set on a stack-allocated copy of the object,
	// depth frames further down the goroutine stack, and copies the result back
	// (a caller's local variable; the runtime may move the stack during the call).
	SetOnStack(p unsafe.Pointer, m, v string, depth int) error
	Get(p unsafe.Pointer, m string) (string, error)
	Vector(p unsafe.Pointer) string
	ScoreNames() []string
	Score(p unsafe.Pointer, which string) float64
	HasNomen() bool
	Nomen(p unsafe.Pointer) string
	HasRating() bool
	Rating(f float64) (string, error)
	Equal(a, b unsafe.Pointer) bool
	Copy(dst, src unsafe.Pointer)
	// Bytes is the object's value as a comparable string: its memory with
	// padding bytes zeroed (padding is not part of ==). For value types that
	// contain pointers (PtrFree false) it is followed by every Get, so that
	// state reached through a pointer is part of the value as well.
	Bytes(p unsafe.Pointer) string
	// FromBytes rebuilds an object from Bytes (only if PtrFree).
	FromBytes(p unsafe.Pointer, b string)
	PtrFree() bool
	ErrName(err error) string
}

type gapi[T comparable] struct {
	setStack  func(p unsafe.Pointer, m, v string, depth int) error
	ver       int
	parse     func(string) (*T, error)
	set       func(*T, string, string) error
	get       func(*T, string) (string, error)
	vector    func(*T) string
	scoreName []string
	score     func(*T, string) float64
	nomen     func(*T) string
	rating    func(float64) (string, error)
	sentinels []namedErr
	mask      []bool // per byte: significant for == (not padding)
	ptrFree   bool
	laidOut   bool
}

// layout inspects T once: which bytes are padding, and whether the value type
// is free of pointers (then a copy shares nothing and bytes are the value).
func (g *gapi[T]) layout() {
	if g.laidOut {
		return
	}
	g.laidOut = true
	var z T
	t := reflect.TypeOf(z)
	g.mask = make([]bool, t.Size())
	g.ptrFree = true
	var walk func(t reflect.Type, off uintptr)
	walk = func(t reflect.Type, off uintptr) {
		switch t.Kind() {
		case reflect.Struct:
			for i := 0; i < t.NumField(); i++ {
				f := t.Field(i)
				if f.Name == "_" {
					continue // blank fields are not part of ==
				}
				walk(f.Type, off+f.Offset)
			}
		case reflect.Array:
			for i := 0; i < t.Len(); i++ {
				walk(t.Elem(), off+uintptr(i)*t.Elem().Size())
			}
		case reflect.Pointer, reflect.Slice, reflect.Map, reflect.String, reflect.Interface, reflect.Chan, reflect.Func, reflect.UnsafePointer:
			// addresses differ from process to process: not part of the
			// comparable string (Bytes adds every Get instead)
			g.ptrFree = false
		default:
			for i := uintptr(0); i < t.Size(); i++ {
				g.mask[off+i] = true
			}
		}
	}
	walk(t, 0)
}

func (g *gapi[T]) PtrFree() bool { g.layout(); return g.ptrFree }

type namedErr struct {
	name string
	err  error
}

func (g *gapi[T]) Ver() int      { return g.ver }
func (g *gapi[T]) Size() uintptr { var z T; return unsafe.Sizeof(z) }
func (g *gapi[T]) New() unsafe.Pointer {
	return unsafe.Pointer(new(T))
}
func (g *gapi[T]) NewSlab(n int) []unsafe.Pointer {
	// two spare elements on either side: a library that writes a little beyond
	// an object (a wide read-modify-write) must hit array elements, whose
	// position is part of the plan, not whatever the heap put next to the array
	arr := make([]T, n+4)
	out := make([]unsafe.Pointer, n)
	for i := range out {
		out[i] = unsafe.Pointer(&arr[i+2])
	}
	return out
}
func (g *gapi[T]) Parse(s string) (unsafe.Pointer, error) {
	p, err := g.parse(s)
	if p == nil {
		return nil, err
	}
	return unsafe.Pointer(p), err
}
func (g *gapi[T]) Set(p unsafe.Pointer, m, v string) error { return g.set((*T)(p), m, v) }
func (g *gapi[T]) SetOnStack(p unsafe.Pointer, m, v string, depth int) error {
	if g.setStack == nil {
		return g.set((*T)(p), m, v)
	}
	return g.setStack(p, m, v, depth)
}
func (g *gapi[T]) Get(p unsafe.Pointer, m string) (string, error) {
	return g.get((*T)(p), m)
}
func (g *gapi[T]) Vector(p unsafe.Pointer) string               { return g.vector((*T)(p)) }
func (g *gapi[T]) ScoreNames() []string                         { return g.scoreName }
func (g *gapi[T]) Score(p unsafe.Pointer, which string) float64 { return g.score((*T)(p), which) }
func (g *gapi[T]) HasNomen() bool                               { return g.nomen != nil }
func (g *gapi[T]) Nomen(p unsafe.Pointer) string                { return g.nomen((*T)(p)) }
func (g *gapi[T]) HasRating() bool                              { return g.rating != nil }
func (g *gapi[T]) Rating(f float64) (string, error)             { return g.rating(f) }
func (g *gapi[T]) Equal(a, b unsafe.Pointer) bool               { return *(*T)(a) == *(*T)(b) }
func (g *gapi[T]) Copy(dst, src unsafe.Pointer)                 { *(*T)(dst) = *(*T)(src) }
func (g *gapi[T]) Bytes(p unsafe.Pointer) string {
	g.layout()
	b := make([]byte, g.Size())
	copy(b, unsafe.Slice((*byte)(p), g.Size()))
	for i, sig := range g.mask {
		if !sig {
			b[i] = 0
		}
	}
	if g.ptrFree {
		return string(b)
	}
	// a value type with pointers inside: add the observable state
	s := string(b)
	quietly(func() {
		for _, ms := range specs[g.ver].Metrics {
			s += "|" + safeGet(g, p, ms.Abv)
		}
	})
	return s
}
func (g *gapi[T]) FromBytes(p unsafe.Pointer, b string) {
	copy(unsafe.Slice((*byte)(p), g.Size()), b)
}
func (g *gapi[T]) ErrName(err error) string {
	for _, s := range g.sentinels {
		if err == s.err {
			return s.name
		}
	}
	return ""
}

var apis = map[int]verAPI{
	20: &gapi[gocvss20.CVSS20]{
		setStack: setOnStack20,
		ver:      20,
		parse:    gocvss20.ParseVector,
		set:      func(o *gocvss20.CVSS20, m, v string) error { return o.Set(m, v) },
		get:      func(o *gocvss20.CVSS20, m string) (string, error) { return o.Get(m) },
		vector: func(o *gocvss20.CVSS20) string {
			return o.Vector()
		},
		scoreName: []string{"base", "temporal", "env", "impact", "expl"},
		score: func(o *gocvss20.CVSS20, w string) float64 {
			switch w {
			case "base":
				return o.BaseScore()
			case "temporal":
				return o.TemporalScore()
			case "env":
				return o.EnvironmentalScore()
			case "impact":
				return o.Impact()
			case "expl":
				return o.Exploitability()
			}
			return math.NaN()
		},
		sentinels: []namedErr{
			{"ErrTooShortVector", gocvss20.ErrTooShortVector},
			{"ErrInvalidMetricOrder", gocvss20.ErrInvalidMetricOrder},
			{"ErrInvalidMetricValue", gocvss20.ErrInvalidMetricValue},
		},
	},
	30: &gapi[gocvss30.CVSS30]{
		setStack:  setOnStack30,
		ver:       30,
		parse:     gocvss30.ParseVector,
		set:       func(o *gocvss30.CVSS30, m, v string) error { return o.Set(m, v) },
		get:       func(o *gocvss30.CVSS30, m string) (string, error) { return o.Get(m) },
		vector:    func(o *gocvss30.CVSS30) string { return o.Vector() },
		scoreName: []string{"base", "temporal", "env", "impact", "expl"},
		score: func(o *gocvss30.CVSS30, w string) float64 {
			switch w {
			case "base":
				return o.BaseScore()
			case "temporal":
				return o.TemporalScore()
			case "env":
				return o.EnvironmentalScore()
			case "impact":
				return o.Impact()
			case "expl":
				return o.Exploitability()
			}
			return math.NaN()
		},
		rating: gocvss30.Rating,
		sentinels: []namedErr{
			{"ErrInvalidCVSSHeader", gocvss30.ErrInvalidCVSSHeader},
			{"ErrTooShortVector", gocvss30.ErrTooShortVector},
			{"ErrInvalidMetricValue", gocvss30.ErrInvalidMetricValue},
			{"ErrOutOfBoundsScore", gocvss30.ErrOutOfBoundsScore},
		},
	},
	31: &gapi[gocvss31.CVSS31]{
		setStack:  setOnStack31,
		ver:       31,
		parse:     gocvss31.ParseVector,
		set:       func(o *gocvss31.CVSS31, m, v string) error { return o.Set(m, v) },
		get:       func(o *gocvss31.CVSS31, m string) (string, error) { return o.Get(m) },
		vector:    func(o *gocvss31.CVSS31) string { return o.Vector() },
		scoreName: []string{"base", "temporal", "env", "impact", "expl"},
		score: func(o *gocvss31.CVSS31, w string) float64 {
			switch w {
			case "base":
				return o.BaseScore()
			case "temporal":
				return o.TemporalScore()
			case "env":
				return o.EnvironmentalScore()
			case "impact":
				return o.Impact()
			case "expl":
				return o.Exploitability()
			}
			return math.NaN()
		},
		rating: gocvss31.Rating,
		sentinels: []namedErr{
			{"ErrInvalidCVSSHeader", gocvss31.ErrInvalidCVSSHeader},
			{"ErrTooShortVector", gocvss31.ErrTooShortVector},
			{"ErrInvalidMetricValue", gocvss31.ErrInvalidMetricValue},
			{"ErrOutOfBoundsScore", gocvss31.ErrOutOfBoundsScore},
		},
	},
	40: &gapi[gocvss40.CVSS40]{
		setStack:  setOnStack40,
		ver:       40,
		parse:     gocvss40.ParseVector,
		set:       func(o *gocvss40.CVSS40, m, v string) error { return o.Set(m, v) },
		get:       func(o *gocvss40.CVSS40, m string) (string, error) { return o.Get(m) },
		vector:    func(o *gocvss40.CVSS40) string { return o.Vector() },
		scoreName: []string{"score"},
		score: func(o *gocvss40.CVSS40, w string) float64 {
			return o.Score()
		},
		nomen:  func(o *gocvss40.CVSS40) string { return o.Nomenclature() },
		rating: gocvss40.Rating,
		sentinels: []namedErr{
			{"ErrInvalidCVSSHeader", gocvss40.ErrInvalidCVSSHeader},
			{"ErrTooShortVector", gocvss40.ErrTooShortVector},
			{"ErrInvalidMetricOrder", gocvss40.ErrInvalidMetricOrder},
			{"ErrInvalidMetricValue", gocvss40.ErrInvalidMetricValue},
			{"ErrOutOfBoundsScore", gocvss40.ErrOutOfBoundsScore},
		},
	},
}

// canonErr is the canonical, comparable description of an error value:
// which exported sentinel variable it is identical to, else its dynamic type,
// printed fields and text.
func canonErr(a verAPI, err error) (s string) {
	if err == nil {
		return "<nil>"
	}
	if n := a.ErrName(err); n != "" {
		return n
	}
	defer func() {
		// Error() is library code: a panic in it is a value, not a crash
		if r := recover(); r != nil {
			if isAbort(r) {
				panic(r)
			}
			s = fmt.Sprintf("%T!panic in Error(): %v", err, r)
		}
	}()
	return fmt.Sprintf("%T%+v|%s", err, err, err.Error())
}

// The setOnStackNN functions call Set directly (a static call: the local copy
// stays on the stack as long as Set itself does not let its receiver escape).

func setOnStack20(p unsafe.Pointer, m, v string, depth int) error {
	if depth > 0 {
		var pad [96]byte
		pad[depth%96] = 1
		err := setOnStack20(p, m, v, depth-1)
		if pad[depth%96] != 1 {
			panic("unreachable: the padding only exists to use stack")
		}
		return err
	}
	local := *(*gocvss20.CVSS20)(p)
	err := local.Set(m, v)
	*(*gocvss20.CVSS20)(p) = local
	return err
}

func setOnStack30(p unsafe.Pointer, m, v string, depth int) error {
	if depth > 0 {
		var pad [96]byte
		pad[depth%96] = 1
		err := setOnStack30(p, m, v, depth-1)
		if pad[depth%96] != 1 {
			panic("unreachable: the padding only exists to use stack")
		}
		return err
	}
	local := *(*gocvss30.CVSS30)(p)
	err := local.Set(m, v)
	*(*gocvss30.CVSS30)(p) = local
	return err
}

func setOnStack31(p unsafe.Pointer, m, v string, depth int) error {
	if depth > 0 {
		var pad [96]byte
		pad[depth%96] = 1
		err := setOnStack31(p, m, v, depth-1)
		if pad[depth%96] != 1 {
			panic("unreachable: the padding only exists to use stack")
		}
		return err
	}
	local := *(*gocvss31.CVSS31)(p)
	err := local.Set(m, v)
	*(*gocvss31.CVSS31)(p) = local
	return err
}

func setOnStack40(p unsafe.Pointer, m, v string, depth int) error {
	if depth > 0 {
		var pad [96]byte
		pad[depth%96] = 1
		err := setOnStack40(p, m, v, depth-1)
		if pad[depth%96] != 1 {
			panic("unreachable: the padding only exists to use stack")
		}
		return err
	}
	local := *(*gocvss40.CVSS40)(p)
	err := local.Set(m, v)
	*(*gocvss40.CVSS40)(p) = local
	return err
}
