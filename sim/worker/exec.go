package main

// Plan execution: arena, caller tasks, operation records and the oracles that
// are evaluated while the run proceeds.

import (
	"encoding/hex"
	"fmt"
	"math"
	"reflect"
	"runtime"
	"sort"
	"strconv"
	"strings"
	"unsafe"

	"github.com/pandatix/go-cvss/verifsim/rt"
	simsync "github.com/pandatix/go-cvss/verifsim/sync"
)

type Violation struct {
	Prop     string `json:"prop"`
	Class    string `json:"class"`
	Task     int    `json:"task"`
	Op       int    `json:"op"`
	Detail   string `json:"detail"`
	NeedsRun int    `json:"needs_run"` // an earlier run of this process that is part of the evidence, -1 if none
}

type rec struct {
	task, idx int
	op        Op
	ver       int
	key, res  string
	before    string
	calmable  bool
}

type vaultEntry struct {
	s, clone string
	what     string
	task, op int
}

type errEntry struct {
	err      error
	ver      int
	canon    string
	task, op int
}

type eqPair struct {
	key, bytes string
	ver        int
	task, op   int
	obj        unsafe.Pointer // a live copy, only for value types with pointers inside
}

// poolVal: a value of a library type that an earlier call of the task returned.
type poolVal struct {
	v     any
	canon string // what it printed as when the task last touched it
}

type taskCtx struct {
	pool    map[string][]*poolVal
	id      int
	recs    []rec
	vault   []vaultEntry
	errs    []errEntry
	viol    []Violation
	eq      []eqPair
	lastErr error
	lastVer int
	probes  probeCounts
	pairs   map[string]bool // coverage: (metric set, value, neighbour, neighbour value)
	jitter  int
}

type probeCounts struct {
	StaleLongerHit     int64
	SharedROUse        int64
	LockedUse          int64
	FrameChecks        int64
	ModelChecks        int64
	SetOK, SetFail     int64
	RoundTrips         int64
	WellFormedChecks   int64
	ParseOK, ParseFail int64
	Panics             int64
	MutatingOnObj      int64 // mutating operations on one object (history length measure)
	PoolOutstanding    int64 // pooled objects taken and not put back when the run was over (O5, informational)
	AliasedArgs        int64 // arguments passed as substrings of library-returned strings
	PoolValueArgs      int64 // calls of discovered API that were given values of library types returned by earlier calls
	PoolValuesKept     int64 // such values kept
	OffsetArgs         int64 // operations whose string arguments started at a chosen offset of a machine word
	StackSets          int64 // Sets performed on a stack copy of the object, deep in the goroutine stack
	GCBetweenOps       int64 // collections forced between two operations of a task (ephemeral arguments)
	ObjArgs            int64 // calls of discovered API that were handed objects of the version's type
	ObjArgAliased      int64 // ... where an argument was the receiver itself or another argument
}

func (a *probeCounts) add(b *probeCounts) {
	a.StaleLongerHit += b.StaleLongerHit
	a.SharedROUse += b.SharedROUse
	a.LockedUse += b.LockedUse
	a.FrameChecks += b.FrameChecks
	a.ModelChecks += b.ModelChecks
	a.SetOK += b.SetOK
	a.SetFail += b.SetFail
	a.RoundTrips += b.RoundTrips
	a.WellFormedChecks += b.WellFormedChecks
	a.ParseOK += b.ParseOK
	a.ParseFail += b.ParseFail
	a.Panics += b.Panics
	a.MutatingOnObj += b.MutatingOnObj
	a.PoolOutstanding += b.PoolOutstanding
	a.AliasedArgs += b.AliasedArgs
	a.PoolValueArgs += b.PoolValueArgs
	a.PoolValuesKept += b.PoolValuesKept
	a.OffsetArgs += b.OffsetArgs
	a.StackSets += b.StackSets
	a.GCBetweenOps += b.GCBetweenOps
	a.ObjArgs += b.ObjArgs
	a.ObjArgAliased += b.ObjArgAliased
}

type cell struct {
	spec    CellSpec
	api     verAPI
	p       unsafe.Pointer
	last    string
	mu      simsync.Mutex
	model   map[string]string
	nMut    int
	history []string // short textual history of mutating ops (for reports)
	slab    bool     // lives in an array next to other cells: assign by value
}

type runCtx struct {
	plan  *Plan
	prop  string
	cells []*cell
	tasks []*taskCtx
	sim   *rt.Sim
	// shared, read-only error values (Plan.SharedErrs)
	sharedErrs   []error
	sharedErrVer []int
}

type runResult struct {
	Viol       []Violation
	Hash       uint64
	SigHash    uint64
	Stats      rt.Stats
	Probes     probeCounts
	AbortWhy   string
	NonTrivial bool
	Trace      []string
	PreemptAt  []int
	recs       []rec
	eq         []eqPair
	setPairs   map[string]bool
	consumed   [3]int
	pointHit   []uint32
	Story      []string   // human-readable schedule of the run (replay mode)
	raceViol   *Violation // kept apart: reported after the deterministic oracles
	vault      []vaultEntry
	errs       []errEntry
}

func hexs(b string) string { return hex.EncodeToString([]byte(b)) }

func quietly(f func()) { rt.Quiet(f) }

func isAbort(r any) bool { return rt.IsAbort(r) }

// safeParse is ParseVector for harness purposes (initial values of cells).
func safeParse(a verAPI, s string) (p unsafe.Pointer, err error) {
	rt.CalmReset()
	do := func() {
		defer func() {
			if r := recover(); r != nil {
				if rt.IsAbort(r) {
					panic(r)
				}
				p, err = nil, fmt.Errorf("panic: %v", r)
			}
		}()
		p, err = a.Parse(s)
	}
	if libSpawns {
		rt.RunCalm(do)
	} else {
		do()
	}
	return p, err
}

func strHash(s string) uint64 {
	h := uint64(14695981039346656037)
	for i := 0; i < len(s); i++ {
		h ^= uint64(s[i])
		h *= 1099511628211
	}
	return h
}

func (x *runCtx) armed(p string) bool { return x.prop == p }
func (x *runCtx) modelOn() bool       { return x.prop != "C14" }

// observe reads all metrics of an object (oracle observation, unscheduled).
// loudObs: observations run as preemptible caller code (Plan.LoudObs).
var loudObs bool

func quietOrLoud(f func()) {
	if loudObs {
		f()
		return
	}
	rt.Quiet(f)
}

func observe(a verAPI, p unsafe.Pointer) map[string]string {
	m := map[string]string{}
	quietOrLoud(func() {
		for _, ms := range specs[a.Ver()].Metrics {
			m[ms.Abv] = safeGet(a, p, ms.Abv)
		}
	})
	return m
}

// safeGet is Get for oracle observations: a library panic becomes a value
// (no legal metric value starts with '!'), it must not take the worker down.
func safeGet(a verAPI, p unsafe.Pointer, abv string) (v string) {
	defer func() {
		if r := recover(); r != nil {
			if rt.IsAbort(r) {
				panic(r)
			}
			t, _, _ := panicText(r)
			v = "!panic:" + t
		}
	}()
	v, err := a.Get(p, abv)
	if err != nil {
		v = "!err:" + canonErr(a, err)
	}
	return v
}

func modelKey(ver int, m map[string]string) string {
	var b strings.Builder
	fmt.Fprintf(&b, "%d", ver)
	for _, ms := range specs[ver].Metrics {
		b.WriteByte('/')
		b.WriteString(m[ms.Abv])
	}
	return b.String()
}

func panicText(r any) (string, uintptr, bool) {
	if e, ok := r.(runtime.Error); ok {
		if ae, ok := r.(interface{ Addr() uintptr }); ok {
			return "fault", ae.Addr(), true
		}
		return e.Error(), 0, false
	}
	if e, ok := r.(error); ok {
		return fmt.Sprintf("%T:%s", r, e.Error()), 0, false
	}
	return fmt.Sprint(r), 0, false
}

type opOut struct {
	res          string
	parsed       unsafe.Pointer
	err          error
	panicked     bool
	faultAddr    uintptr
	fault        bool
	str          string // returned string (vector / get / nomen / rating)
	rtEq, rtGets bool
	rtVec        string
	results      []any  // kExtra: what the call returned
	aliasIn      string // a result changed when the caller reused an input buffer
	f            float64
}

// callOp performs the library call(s) of one operation. It is used by the
// tasks (under the scheduler) and by the calm re-evaluation alike.
// live: the caller's objects for kExtra parameters of the object type (in
// order); nil means "rebuild them from the values recorded in the arguments",
// every one a distinct fresh object.
func callOp(a verAPI, op Op, obj unsafe.Pointer, lastErr error, out *opOut, live []unsafe.Pointer, pv []any) {
	defer func() {
		if r := recover(); r != nil {
			if rt.IsAbort(r) {
				panic(r)
			}
			txt, addr, fault := panicText(r)
			out.panicked = true
			out.fault = fault
			out.faultAddr = addr
			out.res = "panic:" + txt
		}
	}()
	switch op.K {
	case kParse:
		p, err := a.Parse(op.S)
		out.parsed, out.err = p, err
		if p == nil {
			out.res = "obj:nil|" + canonErr(a, err)
		} else {
			out.res = "obj:" + hexs(a.Bytes(p)) + "|" + canonErr(a, err)
		}
	case kVector:
		out.str = a.Vector(obj)
		out.res = out.str
	case kGet:
		v, err := a.Get(obj, op.S)
		out.str, out.err = v, err
		out.res = v + "|" + canonErr(a, err)
	case kSet:
		var err error
		if op.N > 0 {
			err = a.SetOnStack(obj, op.S, op.S2, op.N)
		} else {
			err = a.Set(obj, op.S, op.S2)
		}
		out.err = err
		out.res = canonErr(a, err)
	case kScore:
		f := a.Score(obj, op.S)
		out.f = f
		out.res = fmt.Sprintf("%016x", math.Float64bits(f))
	case kNomen:
		out.str = a.Nomen(obj)
		out.res = out.str
	case kRating:
		s, err := a.Rating(op.F)
		out.str, out.err = s, err
		out.res = s + "|" + canonErr(a, err)
	case kRTrip:
		s := a.Vector(obj)
		out.str, out.rtVec = s, s
		p, err := a.Parse(s)
		out.parsed, out.err = p, err
		if p != nil {
			out.rtEq = a.Equal(p, obj)
			out.rtGets = true
			for _, ms := range specs[a.Ver()].Metrics {
				v1, e1 := a.Get(obj, ms.Abv)
				v2, e2 := a.Get(p, ms.Abv)
				if v1 != v2 || (e1 == nil) != (e2 == nil) {
					out.rtGets = false
				}
			}
		}
		out.res = fmt.Sprintf("%s|%s|%v|%v", s, canonErr(a, err), out.rtEq, out.rtGets)
	case kErrStr:
		if lastErr != nil {
			out.str = lastErr.Error()
			out.res = out.str
		}
	case kExtra:
		fn := findExtra(a.Ver(), op.S)
		if fn == nil {
			out.res = "no such function"
			return
		}
		args := strings.Split(op.S2, "\x1f")
		for len(args) < len(fn.Params) {
			args = append(args, "")
		}
		var objs []unsafe.Pointer
		for i, k := range fn.Params {
			if k != "obj" && k != "objptr" {
				continue
			}
			if live != nil && len(objs) < len(live) {
				objs = append(objs, live[len(objs)])
				continue
			}
			p := a.New()
			if strings.HasPrefix(args[i], "o:") {
				if b, err := hex.DecodeString(args[i][2:]); err == nil && len(b) == len(a.Bytes(p)) {
					a.FromBytes(p, string(b))
				}
			}
			objs = append(objs, p)
		}
		for _, k := range fn.Params {
			if strings.HasPrefix(k, "pool:") && pv == nil {
				out.res = "needs values of library types"
				return
			}
		}
		rs, inputs := fn.Call(obj, args, objs, pv)
		out.results = rs
		out.res = canonResults(rs, a)
		if len(inputs) > 0 {
			// the caller reuses its buffers: what it was handed must not change
			for _, b := range inputs {
				for i := range b {
					b[i] = 'x'
				}
			}
			if now := canonResults(rs, a); now != out.res {
				out.aliasIn = fmt.Sprintf("%s returned %q; after the caller reused its input buffer the same values read %q", op.S, trunc(out.res), trunc(now))
			}
		}
		switch op.D {
		case 1:
			scribble(rs) // the caller uses what it got as its own
		case 2:
			reorder(rs) // ... sorts it, say
		}
	}
}

// poolSorted: the task's kept values, by type name (a deterministic order).
func (tc *taskCtx) poolSorted() [][]*poolVal {
	var keys []string
	for k := range tc.pool {
		keys = append(keys, k)
	}
	sort.Strings(keys)
	var out [][]*poolVal
	for _, k := range keys {
		out = append(out, tc.pool[k])
	}
	return out
}

func (x *runCtx) violate(tc *taskCtx, class string, opi int, format string, args ...any) {
	tc.viol = append(tc.viol, Violation{Prop: x.prop, Class: class, Task: tc.id, Op: opi, Detail: fmt.Sprintf(format, args...), NeedsRun: -1})
}

func countParts(s string) int {
	n := strings.Count(s, "/") + 1
	if n > 14 {
		n = 14
	}
	return n
}

// lockCells takes the harness locks of the shared mutable cells an operation
// touches, in index order.
func (x *runCtx) lockCells(ids ...int) func() {
	var l []int
	for _, i := range ids {
		if i >= 0 && x.cells[i].spec.Mode == mLock {
			dup := false
			for _, j := range l {
				dup = dup || j == i
			}
			if !dup {
				l = append(l, i)
			}
		}
	}
	sort.Ints(l)
	for _, i := range l {
		x.cells[i].mu.Lock()
	}
	return func() {
		for k := len(l) - 1; k >= 0; k-- {
			x.cells[l[k]].mu.Unlock()
		}
	}
}

func (x *runCtx) execOp(tc *taskCtx, opi int, op Op) {
	var c, d *cell
	if op.C >= 0 {
		c = x.cells[op.C]
	}
	if op.D >= 0 && op.K != kExtra && op.K != kErrStr {
		d = x.cells[op.D]
	}
	dLock := op.D
	if op.K == kExtra || op.K == kErrStr {
		dLock = -1
	}
	argCells := op.argCells()
	for _, i := range argCells {
		if i < 0 || i >= len(x.cells) {
			return
		}
	}
	unlock := x.lockCells(append([]int{op.C, dLock}, argCells...)...)
	defer unlock()

	var a verAPI
	switch {
	case c != nil:
		a = c.api
	case op.V != 0:
		a = apis[op.V]
	case op.K == kErrStr && op.D >= 0:
		if len(x.sharedErrs) == 0 {
			return
		}
		a = apis[x.sharedErrVer[op.D%len(x.sharedErrs)]]
	case op.K == kErrStr:
		if tc.lastErr == nil {
			return
		}
		a = apis[tc.lastVer]
	default:
		return
	}
	if (op.K == kNomen && !a.HasNomen()) || (op.K == kRating && !a.HasRating()) {
		return
	}
	if op.K == kExtra {
		fn := findExtra(a.Ver(), op.S)
		if fn == nil || (fn.Recv == 1) != (c != nil) {
			return
		}
		d = nil // D is a flag for this kind, not a cell
		nObj := 0
		for _, k := range fn.Params {
			if k == "obj" || k == "objptr" {
				nObj++
			}
		}
		if nObj != len(argCells) {
			return
		}
		for _, i := range argCells {
			if x.cells[i].api.Ver() != a.Ver() {
				return
			}
		}
	} else if len(argCells) > 0 {
		return
	}

	// lazily observed models (Plan.LoudObs)
	if x.modelOn() {
		for _, cc := range []*cell{c, d} {
			if cc != nil && cc.model == nil && (cc.spec.Mode == mPriv || cc.spec.Mode == mLock) {
				cc.model = observe(cc.api, cc.p)
			}
		}
	}
	// O2(e): nobody changed the cells this task may look at behind its back
	before := ""
	if c != nil {
		before = a.Bytes(c.p)
		x.frameCheck(tc, opi, op.C, before)
		switch c.spec.Mode {
		case mRO, mROHeap:
			tc.probes.SharedROUse++
		case mLock:
			tc.probes.LockedUse++
		}
	}
	if d != nil && op.K == kCopy {
		x.frameCheck(tc, opi, op.D, d.api.Bytes(d.p))
	}

	r := rec{task: tc.id, idx: opi, op: op, ver: a.Ver(), before: before}

	switch op.K {
	case kCopy:
		d.api.Copy(d.p, c.p)
		d.last = d.api.Bytes(d.p)
		d.nMut++
		if x.modelOn() {
			src := c.model
			if src == nil || c.spec.Mode == mRO || c.spec.Mode == mROHeap {
				src = observe(c.api, c.p) // shared read-only source: never touch its model from a task
			}
			d.model = map[string]string{}
			for k, v := range src {
				d.model[k] = v
			}
			x.afterMutation(tc, opi, d, op.D, "copy")
		}
		return
	case kZero:
		z := a.New()
		a.Copy(c.p, z)
		c.last = a.Bytes(c.p)
		c.nMut++
		if x.modelOn() {
			c.model = observe(a, c.p)
			x.afterMutation(tc, opi, c, op.C, "zero")
		}
		return
	}

	var out opOut
	var obj unsafe.Pointer
	if c != nil {
		obj = c.p
	}
	theErr := tc.lastErr
	if op.K == kErrStr && op.D >= 0 {
		theErr = x.sharedErrs[op.D%len(x.sharedErrs)] // a value every task may look at
	}
	if x.plan.AliasArgs {
		op = x.aliasArgs(tc, op)
	}
	if x.plan.ArgOffset && !x.plan.AliasArgs {
		off := (tc.id + opi) % 8
		shift := func(s string) string {
			if s == "" {
				return s
			}
			return (strings.Repeat("#", off) + s + "#")[off : off+len(s)]
		}
		op.S, op.S2 = shift(op.S), shift(op.S2)
		tc.probes.OffsetArgs++
	} else if x.plan.EphArgs {
		for _, g := range x.plan.GCOps {
			if len(g) == 2 && g[0] == tc.id && g[1] == opi {
				runtime.GC() // what earlier calls were given is garbage by now
				tc.probes.GCBetweenOps++
			}
		}
		// the arguments are fresh copies that nobody keeps after the call
		op.S, op.S2 = strings.Clone(op.S), strings.Clone(op.S2)
	}
	var live []unsafe.Pointer
	var argBefore []string
	if len(argCells) > 0 {
		// the recorded operation carries the VALUES of the objects passed, so
		// that the calm and fresh-process evaluations rebuild them - as
		// distinct objects, whatever aliased what here
		fn := findExtra(a.Ver(), op.S)
		args := strings.Split(op.S2, "\x1f")
		for len(args) < len(fn.Params) {
			args = append(args, "")
		}
		k := 0
		for i, kind := range fn.Params {
			if kind != "obj" && kind != "objptr" {
				continue
			}
			ac := x.cells[argCells[k]]
			b := a.Bytes(ac.p)
			if argCells[k] != op.C {
				x.frameCheck(tc, opi, argCells[k], b)
			}
			args[i] = "o:" + hex.EncodeToString([]byte(b))
			live = append(live, ac.p)
			argBefore = append(argBefore, b)
			k++
		}
		op.S2 = strings.Join(args, "\x1f")
		op.A = ""
		r.op = op
		tc.probes.ObjArgs++
		for i, c1 := range argCells {
			if c1 == op.C {
				tc.probes.ObjArgAliased++
			}
			for _, c2 := range argCells[:i] {
				if c1 == c2 {
					tc.probes.ObjArgAliased++
				}
			}
		}
	}
	// values of library types for "pool:" / "vpool:" parameters
	var pv []any
	var pvUsed []*poolVal
	if op.K == kExtra {
		fn := findExtra(a.Ver(), op.S)
		args := strings.Split(op.S2, "\x1f")
		for len(args) < len(fn.Params) {
			args = append(args, "")
		}
		poolish := false
		for i, kind := range fn.Params {
			var key string
			var refs []string
			switch {
			case strings.HasPrefix(kind, "pool:"):
				key, refs = kind[5:], []string{args[i]}
			case strings.HasPrefix(kind, "vpool:"):
				key = kind[6:]
				if args[i] != "" {
					refs = strings.Split(args[i], ",")
				}
			default:
				continue
			}
			poolish = true
			have := tc.pool[key]
			for _, ref := range refs {
				if len(have) == 0 {
					if strings.HasPrefix(kind, "pool:") {
						return // nothing of that type was returned to this task yet
					}
					continue
				}
				k, _ := strconv.Atoi(strings.TrimPrefix(ref, "p"))
				pvUsed = append(pvUsed, have[len(have)-1-k%len(have)])
			}
		}
		if poolish {
			var canons []string
			for _, e := range pvUsed {
				now := canonValue(reflect.ValueOf(e.v), 0)
				if now != e.canon && x.armed("C14") {
					x.violate(tc, "value-changed-behind-caller", opi, "a value of type %T that the library returned to this task printed as %s when the task last touched it and prints as %s now: a call that was not given it changed it", e.v, trunc(e.canon), trunc(now))
					e.canon = now
				}
				pv = append(pv, e.v)
				canons = append(canons, now)
			}
			if pv == nil {
				pv = []any{}
			}
			// the recorded arguments carry what the values looked like
			op.S2 += "\x1fvalues:" + strings.Join(canons, ";")
			r.op = op
			tc.probes.PoolValueArgs++
		}
	}
	callOp(a, op, obj, theErr, &out, live, pv)
	if op.K == kExtra {
		for _, e := range pvUsed {
			e.canon = canonValue(reflect.ValueOf(e.v), 0) // the callee may have changed what it was given
		}
		for _, r0 := range out.results {
			if r0 == nil {
				continue
			}
			key := reflect.TypeOf(r0).String()
			if !isPoolType(key) {
				continue
			}
			if rv := reflect.ValueOf(r0); (rv.Kind() == reflect.Pointer || rv.Kind() == reflect.Func || rv.Kind() == reflect.Map || rv.Kind() == reflect.Slice) && rv.IsNil() {
				continue
			}
			if tc.pool == nil {
				tc.pool = map[string][]*poolVal{}
			}
			if len(tc.pool[key]) < 24 {
				tc.pool[key] = append(tc.pool[key], &poolVal{v: r0, canon: canonValue(reflect.ValueOf(r0), 0)})
				tc.probes.PoolValuesKept++
			}
		}
	}
	for k, i := range argCells {
		// an unknown function may change an object it was given a pointer to
		ac := x.cells[i]
		now := a.Bytes(ac.p)
		if i != op.C && now != argBefore[k] && (ac.spec.Mode == mPriv || ac.spec.Mode == mLock) {
			ac.last = now
			ac.nMut++
			ac.note("extra " + op.S + " (as argument)")
			if x.modelOn() {
				ac.model = observe(a, ac.p)
				x.afterMutation(tc, opi, ac, i, "extra")
			}
		}
	}

	if op.K == kParse && op.V == 20 {
		if t := rt.Cur(); t != nil && t.LastPoolStale > countParts(op.S) {
			tc.probes.StaleLongerHit++
		}
	}
	if out.aliasIn != "" && x.armed("C14") {
		x.violate(tc, "result-aliases-input", opi, "%s", out.aliasIn)
	}
	if out.panicked {
		tc.probes.Panics++
		if out.fault && page.contains(out.faultAddr) {
			if x.armed("C14") {
				x.violate(tc, "wrote-to-shared-object", opi, "%s on a write-protected shared %d object faulted: the call writes to its receiver", op.K, a.Ver())
			}
		}
		if x.armed("C09") && op.K != kParse {
			x.violate(tc, "panic", opi, "%s(%q,%q) on a reachable v%d object panicked: %s; history: %s", op.K, op.S, op.S2, a.Ver(), out.res, histOf(c))
		}
	}

	after := ""
	if c != nil {
		after = a.Bytes(c.p)
	}
	// O1 record
	r.res = out.res + "|" + hexs(after)
	switch op.K {
	case kErrStr:
		r.key = fmt.Sprintf("%d|errstr|%s", a.Ver(), errIdent(theErr))
	case kRating:
		r.key = fmt.Sprintf("%d|rating|%016x", a.Ver(), math.Float64bits(op.F))
		r.calmable = true
	case kParse:
		r.key = fmt.Sprintf("%d|parse|%s", a.Ver(), op.S)
		r.calmable = true
	case kExtra:
		r.key = fmt.Sprintf("%d|extra|%s|%s|%s|%d", a.Ver(), op.S, hexs(before), op.S2, op.D)
		r.calmable = a.PtrFree() && pv == nil
	default:
		r.key = fmt.Sprintf("%d|%s|%s|%s|%s", a.Ver(), op.K, hexs(before), op.S, op.S2)
		r.calmable = a.PtrFree() // a value with pointers inside cannot be rebuilt from its bytes
	}
	if !(out.fault && page.contains(out.faultAddr)) {
		tc.recs = append(tc.recs, r) // a fault on the protected page is O2(c)'s verdict, not a result
	}
	x.sim.MixResult(strHash(r.key) ^ strHash(r.res)*31)

	// vault: strings and errors handed out by the library must never change
	if out.str != "" {
		tc.vault = append(tc.vault, vaultEntry{s: out.str, clone: strings.Clone(out.str), what: op.K, task: tc.id, op: opi})
	}
	if out.err != nil {
		tc.errs = append(tc.errs, errEntry{err: out.err, ver: a.Ver(), canon: canonErr(a, out.err), task: tc.id, op: opi})
		tc.lastErr, tc.lastVer = out.err, a.Ver()
	}

	// O2(b): only Set may change its receiver
	if c != nil && op.K != kSet && op.K != kExtra && after != before {
		if x.armed("C14") {
			x.violate(tc, "receiver-modified", opi, "%s changed its v%d receiver from %s to %s", op.K, a.Ver(), hexs(before), hexs(after))
		}
	}
	if c != nil && (c.spec.Mode == mPriv || c.spec.Mode == mLock) {
		c.last = after
	}

	switch op.K {
	case kParse:
		if out.parsed != nil && out.err == nil {
			tc.probes.ParseOK++
		} else {
			tc.probes.ParseFail++
		}
		if x.armed("C09") && out.parsed != nil && out.err == nil && !out.panicked {
			// Order, duplicates, missing metrics and separators are C01's business.
			// That a metric:value couple which is not of this version went
			// through (ParseVector stores by way of Set) is this property's.
			sp := specs[a.Ver()]
			parts := strings.Split(op.S, "/")
			if sp.Header != "" && len(parts) > 0 && parts[0] == sp.Header {
				parts = parts[1:]
			} else if sp.Header != "" && strings.HasPrefix(op.S, sp.Header+"/") {
				parts = strings.Split(op.S[len(sp.Header)+1:], "/")
			}
			for _, part := range parts {
				k := strings.IndexByte(part, ':')
				if k < 0 {
					continue
				}
				ms := sp.metric(part[:k])
				if ms == nil || !ms.has(part[k+1:]) {
					x.violate(tc, "accepted-illegal", opi, "v%d ParseVector(%q) succeeded although %q is not a metric/value of this version", a.Ver(), trunc(op.S), trunc(part))
					break
				}
			}
		}
		if out.parsed != nil && out.err == nil && d != nil {
			// the caller keeps the object ParseVector handed out
			if d.spec.Mode == mPriv || d.spec.Mode == mLock {
				if d.slab {
					d.api.Copy(d.p, out.parsed) // arr[i] = *res
				} else {
					d.p = out.parsed
				}
				d.last = d.api.Bytes(d.p)
				d.nMut++
				d.note("parse " + op.S)
				if x.modelOn() {
					d.model = observe(d.api, d.p)
					x.afterMutation(tc, opi, d, op.D, "parse")
				}
			}
		}
	case kExtra:
		// an unknown method may legitimately change its receiver: re-observe
		if c != nil && after != before {
			c.nMut++
			c.note("extra " + op.S)
			if x.modelOn() {
				c.model = observe(a, c.p)
				x.afterMutation(tc, opi, c, op.C, "extra")
			}
		}
	case kSet:
		if op.N > 0 {
			tc.probes.StackSets++
		}
		x.afterSet(tc, opi, c, op, before, after, &out)
	case kRTrip:
		tc.probes.RoundTrips++
		if x.armed("C02") && !out.panicked {
			switch {
			case out.parsed == nil || out.err != nil:
				x.violate(tc, "vector-rejected", opi, "v%d Vector() = %q is rejected by ParseVector: %s; history: %s", a.Ver(), out.rtVec, canonErr(a, out.err), histOf(c))
			case !out.rtEq:
				x.violate(tc, "roundtrip-not-equal", opi, "v%d object %s -> %q -> %s is not == the original; history: %s", a.Ver(), hexs(before), out.rtVec, hexs(a.Bytes(out.parsed)), histOf(c))
			case !out.rtGets:
				x.violate(tc, "roundtrip-get-differs", opi, "v%d object %s -> %q: a Get differs after the round trip; history: %s", a.Ver(), hexs(before), out.rtVec, histOf(c))
			}
		}
		if x.armed("C02") && out.panicked {
			x.violate(tc, "roundtrip-panic", opi, "v%d round trip of %s panicked: %s; history: %s", a.Ver(), hexs(before), out.res, histOf(c))
		}
	case kGet:
		if x.armed("C09") && !out.panicked {
			ms := specs[a.Ver()].metric(op.S)
			switch {
			case ms == nil && out.err == nil:
				x.violate(tc, "get-unknown-accepted", opi, "v%d Get(%q) returned %q, nil for an abbreviation that is not a metric of this version", a.Ver(), op.S, out.str)
			case ms != nil && out.err != nil:
				x.violate(tc, "get-known-rejected", opi, "v%d Get(%q) failed with %s", a.Ver(), op.S, canonErr(a, out.err))
			case ms != nil && !ms.has(out.str):
				x.violate(tc, "ill-formed-get", opi, "v%d Get(%q) = %q is not a value of that metric; object %s; history: %s", a.Ver(), op.S, out.str, hexs(before), histOf(c))
			}
		}
	}
	if x.armed("C09") && c != nil && op.K != kSet {
		x.wellFormed(tc, opi, c)
	}
}

// aliasArgs replaces string arguments by equal substrings of strings the
// library returned earlier to this task (Plan.AliasArgs): same bytes, other
// storage. The first match in the task's vault is taken (deterministic).
func (x *runCtx) aliasArgs(tc *taskCtx, op Op) Op {
	find := func(s string) string {
		if s == "" {
			return s
		}
		for i := len(tc.vault) - 1; i >= 0 && i >= len(tc.vault)-32; i-- {
			if k := strings.Index(tc.vault[i].s, s); k >= 0 {
				tc.probes.AliasedArgs++
				return tc.vault[i].s[k : k+len(s)]
			}
		}
		return s
	}
	// ... or by a prefix of a short string Get returned in an EARLIER run of this
	// process (litTable): those are the library's own literals, and a prefix
	// of one shares its storage
	lit := func(s string) string {
		if s == "" {
			return s
		}
		n0 := tc.probes.AliasedArgs
		if t := find(s); tc.probes.AliasedArgs != n0 {
			return t // found in the vault
		}
		best := ""
		for _, v := range litTable {
			if len(v) >= len(s) && v[:len(s)] == s && len(v) > len(best) {
				best = v
			}
		}
		if best != "" {
			tc.probes.AliasedArgs++
			return best[:len(s)]
		}
		return s
	}
	switch op.K {
	case kGet, kParse:
		op.S = find(op.S)
	case kSet:
		op.S, op.S2 = find(op.S), lit(op.S2)
	}
	return op
}

// litTable: short strings returned by Get in earlier runs of this process, one
// per content. Written between runs only (main goroutine), read by the tasks.
var litTable []string

func litAdd(vault []vaultEntry) {
	for _, e := range vault {
		if e.what != kGet || len(e.s) == 0 || len(e.s) > 16 || len(litTable) >= 256 {
			continue
		}
		dup := false
		for _, v := range litTable {
			dup = dup || v == e.s
		}
		if !dup {
			litTable = append(litTable, e.s)
		}
	}
}

func errIdent(err error) string {
	return fmt.Sprintf("%T%+v", err, err)
}

func histOf(c *cell) string {
	if c == nil {
		return ""
	}
	h := c.history
	init := c.spec.Init
	if init == "" {
		init = "<zero value>"
	}
	return "init " + init + "; " + strings.Join(h, "; ")
}

func (c *cell) note(s string) {
	if len(c.history) < 48 {
		c.history = append(c.history, s)
	}
}

// frameCheck: the object must still hold the value its owner last saw.
func (x *runCtx) frameCheck(tc *taskCtx, opi, ci int, now string) {
	c := x.cells[ci]
	tc.probes.FrameChecks++
	if c.last != now && x.armed("C14") {
		x.violate(tc, "object-changed-behind-caller", opi, "v%d cell %d (%s) held %s after its owner's last operation and %s now: somebody else wrote to it", c.spec.Ver, ci, c.spec.Mode, hexs(c.last), hexs(now))
	}
}

func (x *runCtx) afterSet(tc *taskCtx, opi int, c *cell, op Op, before, after string, out *opOut) {
	a := c.api
	sp := specs[a.Ver()]
	ms := sp.metric(op.S)
	legal := ms != nil && ms.has(op.S2)
	ok := out.err == nil && !out.panicked
	if ok {
		tc.probes.SetOK++
		c.nMut++
		c.note(fmt.Sprintf("Set(%s,%s)", op.S, op.S2))
		tc.probes.MutatingOnObj++
	} else {
		tc.probes.SetFail++
		c.note(fmt.Sprintf("Set(%q,%q)=err", op.S, op.S2))
	}
	if x.armed("C09") && !out.panicked {
		if ok && !legal {
			x.violate(tc, "accepted-illegal", opi, "v%d Set(%q,%q) returned nil but that is not a metric/value of this version; history: %s", a.Ver(), op.S, op.S2, histOf(c))
		}
		if !ok && legal {
			x.violate(tc, "rejected-legal", opi, "v%d Set(%q,%q) failed with %s although it is legal; history: %s", a.Ver(), op.S, op.S2, canonErr(a, out.err), histOf(c))
		}
	}
	if !x.modelOn() {
		return
	}
	now := observe(a, c.p)
	tc.probes.ModelChecks++
	if tc.pairs != nil && ok && ms != nil {
		// coverage: (metric set, value, neighbour metric, neighbour value)
		for k, v := range c.model {
			if k != op.S {
				tc.pairs[fmt.Sprintf("%d:%s=%s|%s=%s", a.Ver(), op.S, op.S2, k, v)] = true
			}
		}
	}
	if x.armed("C07") {
		if ok {
			if ms != nil && now[op.S] != op.S2 {
				x.violate(tc, "set-wrong-value", opi, "v%d after Set(%s,%s) Get(%s) = %q; history: %s", a.Ver(), op.S, op.S2, op.S, now[op.S], histOf(c))
			}
			for _, o := range sp.Metrics {
				if o.Abv != op.S && now[o.Abv] != c.model[o.Abv] {
					x.violate(tc, "set-changed-other", opi, "v%d Set(%s,%s) changed %s from %q to %q; object %s -> %s; history: %s", a.Ver(), op.S, op.S2, o.Abv, c.model[o.Abv], now[o.Abv], hexs(before), hexs(after), histOf(c))
					break
				}
			}
		} else {
			if after != before {
				x.violate(tc, "failed-set-modified", opi, "v%d failed Set(%q,%q) changed the object from %s to %s; history: %s", a.Ver(), op.S, op.S2, hexs(before), hexs(after), histOf(c))
			} else {
				for _, o := range sp.Metrics {
					if now[o.Abv] != c.model[o.Abv] {
						x.violate(tc, "failed-set-modified", opi, "v%d failed Set(%q,%q) changed %s from %q to %q; history: %s", a.Ver(), op.S, op.S2, o.Abv, c.model[o.Abv], now[o.Abv], histOf(c))
						break
					}
				}
			}
		}
	}
	if ok && ms != nil {
		c.model = now
	} else if ok {
		c.model = now
	}
	x.afterMutation(tc, opi, c, op.C, "set")
}

// afterMutation: checks that apply to every new object value.
func (x *runCtx) afterMutation(tc *taskCtx, opi int, c *cell, ci int, how string) {
	if x.armed("C07") {
		// same metric values => equal objects, whatever the history
		ep := eqPair{key: modelKey(c.spec.Ver, c.model), bytes: c.api.Bytes(c.p), ver: c.spec.Ver, task: tc.id, op: opi}
		if !c.api.PtrFree() {
			ep.obj = c.api.New()
			c.api.Copy(ep.obj, c.p)
		}
		tc.eq = append(tc.eq, ep)
	}
	if x.armed("C09") {
		x.wellFormed(tc, opi, c)
	}
}

// wellFormed: every Get legal and non-empty, Vector() grammatical, no scoring
// method panics (C09, second sentence).
func (x *runCtx) wellFormed(tc *taskCtx, opi int, c *cell) {
	a := c.api
	sp := specs[a.Ver()]
	tc.probes.WellFormedChecks++
	var bad string
	quietOrLoud(func() {
		defer func() {
			if r := recover(); r != nil {
				if rt.IsAbort(r) {
					panic(r)
				}
				t, _, _ := panicText(r)
				bad = "a method panicked: " + t
			}
		}()
		for _, ms := range sp.Metrics {
			v, err := a.Get(c.p, ms.Abv)
			if err != nil || v == "" || !ms.has(v) {
				bad = fmt.Sprintf("Get(%s) = %q, %s", ms.Abv, v, canonErr(a, err))
				return
			}
		}
		vec := a.Vector(c.p)
		if !sp.grammatical(vec) {
			bad = fmt.Sprintf("Vector() = %q is not a grammatical v%d vector", vec, a.Ver())
			return
		}
		for _, sn := range a.ScoreNames() {
			_ = a.Score(c.p, sn)
		}
		if a.HasNomen() {
			_ = a.Nomen(c.p)
		}
	})
	if bad != "" {
		x.violate(tc, "ill-formed-object", opi, "v%d object %s is not well formed: %s; history: %s", a.Ver(), hexs(a.Bytes(c.p)), bad, histOf(c))
	}
}

// ------------------------------------------------------------------ run

var nPoints int // number of preemption points compiled into the library copy

func runPlan(p *Plan, trace bool, collectCover bool) *runResult {
	x := &runCtx{plan: p, prop: p.Prop}
	res := &runResult{}
	page.reset()
	loudObs = p.LoudObs
	// slab: adjacent storage per version
	slabs := map[int][]unsafe.Pointer{}
	if p.Slab {
		count := map[int]int{}
		for _, cs := range p.Cells {
			if cs.Mode == mPriv || cs.Mode == mLock {
				count[cs.Ver]++
			}
		}
		for ver, n := range count {
			if apis[ver] != nil {
				slabs[ver] = apis[ver].NewSlab(n)
			}
		}
	}
	// arena (calm: S == nil)
	for i, cs := range p.Cells {
		a := apis[cs.Ver]
		if a == nil {
			fatal("plan: unknown version %d", cs.Ver)
		}
		c := &cell{spec: cs, api: a}
		var init unsafe.Pointer
		if cs.Init != "" {
			q, err := safeParse(a, cs.Init)
			if q != nil && err == nil {
				init = q
			}
		}
		switch cs.Mode {
		case mRO:
			c.p = page.alloc(a.Size())
			if init != nil {
				a.Copy(c.p, init)
			}
		default:
			if sl := slabs[cs.Ver]; len(sl) > 0 && (cs.Mode == mPriv || cs.Mode == mLock) {
				c.p = sl[0]
				slabs[cs.Ver] = sl[1:]
				c.slab = true
				if init != nil {
					a.Copy(c.p, init)
				}
			} else if init != nil {
				c.p = init
			} else {
				c.p = a.New()
			}
		}
		c.last = a.Bytes(c.p)
		if x.modelOn() && !p.LoudObs {
			c.model = observe(a, c.p)
		} // LoudObs: observed by the first task that uses the cell, as caller code
		_ = i
		x.cells = append(x.cells, c)
	}
	for _, es := range p.SharedErrs {
		a := apis[es.Ver]
		if a == nil {
			continue
		}
		var err error
		func() {
			defer func() { recover() }()
			rt.CalmReset()
			switch es.K {
			case "get":
				_, err = a.Get(a.New(), es.S)
			case "set":
				err = a.Set(a.New(), es.S, es.S2)
			default:
				_, err = a.Parse(es.S)
			}
		}()
		if err != nil {
			x.sharedErrs = append(x.sharedErrs, err)
			x.sharedErrVer = append(x.sharedErrVer, es.Ver)
		}
	}
	page.protect()
	wantPairs := p.Prop == "C07" || p.Prop == "C02" || p.Prop == "C09"

	cfg := p.simConfig(trace)
	if cfg.MaxPoints <= 0 {
		// only there to end runs in which a library call never finishes
		cfg.MaxPoints = 400000 + 20000*int64(p.nOps()) + 400*p.argBytes()
		if p.BudgetX > 1 {
			cfg.MaxPoints *= p.BudgetX
		}
	}
	sim := rt.New(cfg, nPoints, collectCover)
	x.sim = sim
	for ti := range p.Tasks {
		tc := &taskCtx{id: ti}
		if wantPairs {
			tc.pairs = map[string]bool{}
		}
		x.tasks = append(x.tasks, tc)
		ops := p.Tasks[ti]
		jit := p.Jitter * (ti + 1)
		sim.AddTask(func() {
			for j := 0; j < jit; j++ {
				tc.jitter++
			}
			for oi, op := range ops {
				rt.SchedPoint('o', oi)
				sim.Note("op", tc.id, oi)
				x.execOp(tc, oi, op)
			}
			// what the library handed to this task must still look as it did
			for _, list := range tc.poolSorted() {
				for _, e := range list {
					if now := canonValue(reflect.ValueOf(e.v), 0); now != e.canon && x.armed("C14") {
						x.violate(tc, "value-changed-behind-caller", len(ops)-1, "a value of type %T that the library returned to this task printed as %s when the task last touched it and prints as %s at the end: a call that was not given it changed it", e.v, trunc(e.canon), trunc(now))
					}
				}
			}
		})
	}
	// input vault: the strings handed to the library must not change either
	var inHash uint64
	inputs := func() uint64 {
		h := uint64(1469598103934665603)
		for _, t := range p.Tasks {
			for _, op := range t {
				h = (h ^ strHash(op.S)) * 1099511628211
				h = (h ^ strHash(op.S2)) * 1099511628211
			}
		}
		return h
	}
	if p.Prop == "C14" {
		inHash = inputs()
	}
	races0 := rt.RaceErrors()
	sim.Run()
	page.unprotect()
	res.Probes.PoolOutstanding += int64(rt.PoolOutstanding())

	// ---- post-run oracles (main goroutine; every task has finished)
	res.Hash = sim.Hash()
	res.SigHash = sim.SigHash()
	res.Stats = sim.St
	res.AbortWhy = sim.AbortWhy
	for _, e := range sim.Trace {
		res.Trace = append(res.Trace, e.String())
	}
	res.PreemptAt = append([]int(nil), sim.PreemptAt...) // the simulation object is reused by the next run
	res.pointHit = sim.PointHit
	s1, s2, s3 := sim.Consumed()
	res.consumed = [3]int{s1, s2, s3}
	res.setPairs = map[string]bool{}
	for _, tc := range x.tasks {
		for k := range tc.pairs {
			res.setPairs[k] = true
		}
		res.Viol = append(res.Viol, tc.viol...)
		res.Probes.add(&tc.probes)
		res.recs = append(res.recs, tc.recs...)
		res.eq = append(res.eq, tc.eq...)
	}
	for _, tc := range x.tasks {
		litAdd(tc.vault)
	}
	c14 := p.Prop == "C14"
	if c14 {
		if n := rt.RaceErrors() - races0; n > 0 {
			res.raceViol = &Violation{Prop: "C14", Class: "race", Task: -1, Op: -1, Detail: fmt.Sprintf("%d data race report(s) from the happens-before monitor during this run", n), NeedsRun: -1}
		}
		switch sim.AbortWhy {
		case "deadlock":
			res.Viol = append(res.Viol, Violation{Prop: "C14", Class: "deadlock", Task: -1, Op: -1, Detail: "all caller tasks are blocked inside library calls: a call that returns alone does not return beside others", NeedsRun: -1})
		case "goroutine-panic":
			res.Viol = append(res.Viol, Violation{Prop: "C14", Class: "goroutine-panic", Task: -1, Op: -1, Detail: "a goroutine started by the library panicked (a real process would crash): " + sim.GoPanic, NeedsRun: -1})
		case "no-progress":
			res.Viol = append(res.Viol, Violation{Prop: "C14", Class: "no-progress", Task: -1, Op: -1, Detail: "point budget exhausted: a library call does not finish under this schedule", NeedsRun: -1})
		}
		if inputs() != inHash {
			res.Viol = append(res.Viol, Violation{Prop: "C14", Class: "input-modified", Task: -1, Op: -1, Detail: "a string passed to the library as an argument has different bytes after the run", NeedsRun: -1})
		}
		// O2(a): strings and errors never change after they were handed out
		for _, tc := range x.tasks {
			res.vault = append(res.vault, tc.vault...)
			res.errs = append(res.errs, tc.errs...)
			for _, v := range tc.vault {
				if v.s != v.clone {
					res.Viol = append(res.Viol, Violation{Prop: "C14", Class: "string-changed", Task: v.task, Op: v.op, Detail: fmt.Sprintf("string returned by %s was %q and is %q now", v.what, v.clone, v.s), NeedsRun: -1})
					break
				}
			}
			for _, e := range tc.errs {
				if now := canonErr(apis[e.ver], e.err); now != e.canon {
					res.Viol = append(res.Viol, Violation{Prop: "C14", Class: "error-changed", Task: e.task, Op: e.op, Detail: fmt.Sprintf("error value was %q and is %q now", e.canon, now), NeedsRun: -1})
					break
				}
			}
		}
		// O2(e) at quiescence and O2(f): live objects are distinct allocations
		seen := map[unsafe.Pointer]int{}
		for i, c := range x.cells {
			if now := c.api.Bytes(c.p); now != c.last {
				res.Viol = append(res.Viol, Violation{Prop: "C14", Class: "object-changed-behind-caller", Task: -1, Op: -1, Detail: fmt.Sprintf("v%d cell %d (%s) held %s after its owner's last operation and %s at the end of the run", c.spec.Ver, i, c.spec.Mode, hexs(c.last), hexs(now)), NeedsRun: -1})
			}
			if j, dup := seen[c.p]; dup {
				res.Viol = append(res.Viol, Violation{Prop: "C14", Class: "aliased-result", Task: -1, Op: -1, Detail: fmt.Sprintf("cells %d and %d hold the same pointer: ParseVector handed out one object twice", j, i), NeedsRun: -1})
			}
			seen[c.p] = i
		}
	}
	st := &res.Stats
	switch p.Prop {
	case "C14":
		res.NonTrivial = res.Probes.StaleLongerHit > 0 || st.PoolOverlap > 0 || st.PreemptInLib > 0 || (res.Probes.SharedROUse > 0 && len(p.Tasks) > 1)
	default:
		for _, c := range x.cells {
			if c.nMut >= 2 {
				res.NonTrivial = true
			}
		}
	}
	if trace {
		res.Story = story(p, sim.Trace, res)
	}
	return res
}

// story renders the executed schedule of a (small) run: which task started
// which operation, where it was preempted, what the pool did, and what each
// operation returned.
func story(p *Plan, tr []rt.TraceEv, res *runResult) []string {
	results := map[[2]int]string{}
	for _, r := range res.recs {
		results[[2]int{r.task, r.idx}] = r.res
	}
	var out []string
	for _, e := range tr {
		switch e.Kind {
		case "op":
			if e.A < len(p.Tasks) && e.B < len(p.Tasks[e.A]) {
				op := p.Tasks[e.A][e.B]
				line := fmt.Sprintf("task %d op %d: %s", e.A, e.B, op.K)
				if op.V != 0 {
					line += fmt.Sprintf(" v%d", op.V)
				}
				if op.C >= 0 {
					line += fmt.Sprintf(" cell %d", op.C)
				}
				if op.D >= 0 {
					line += fmt.Sprintf(" -> cell %d", op.D)
				}
				if op.S != "" || op.S2 != "" {
					line += fmt.Sprintf(" %q %q", op.S, op.S2)
				}
				if r, ok := results[[2]int{e.A, e.B}]; ok {
					line += "  => " + trunc(r)
				}
				out = append(out, line)
			}
		case "pre":
			site := "?"
			if e.B < len(pointSites) {
				site = pointSites[e.B]
			}
			out = append(out, fmt.Sprintf("  task %d preempted before %s", e.A, site))
		case "sw":
			out = append(out, fmt.Sprintf("  switch: task %d -> task %d", e.A, e.B))
		case "gm":
			out = append(out, fmt.Sprintf("  task %d: pool Get misses (pool empty) -> New", e.A))
		case "gf":
			out = append(out, fmt.Sprintf("  task %d: pool Get misses (injected) -> New", e.A))
		case "gc":
			out = append(out, fmt.Sprintf("  task %d: pools cleared (GC), Get misses -> New", e.A))
		case "gh":
			out = append(out, fmt.Sprintf("  task %d: pool Get returns idle item #%d", e.A, e.B))
		case "pk":
			out = append(out, fmt.Sprintf("  task %d: pool Put kept (%d idle)", e.A, e.B))
		case "pd":
			out = append(out, fmt.Sprintf("  task %d: pool Put dropped", e.A))
		case "lb":
			out = append(out, fmt.Sprintf("  task %d blocks on lock %d", e.A, e.B))
		case "go":
			out = append(out, fmt.Sprintf("  task %d starts goroutine (task %d)", e.A, e.B))
		case "exit":
			out = append(out, fmt.Sprintf("  task %d done", e.A))
		}
		if len(out) > 400 {
			out = append(out, "  ...")
			break
		}
	}
	return out
}
