package main

// Calls into exported API the harness was not written against (see
// cmd/simcheck/extraapi.go): the wrappers are generated per tree.

import (
	"encoding/json"
	"fmt"
	"reflect"
	"strconv"
	"strings"
	"unsafe"
)

type extraFn struct {
	Ver    int
	Name   string
	Recv   int      // 1: method of the version's object type
	Params []string // "string" | "int" | "float" | "bool" | "bytes" | "any" | "strs" | "vstrs" | "func" | "obj" | "objptr"
	// Call returns the results and the byte buffers it passed in (the
	// caller's own buffers, which it is free to reuse afterwards).
	// objs: the objects for parameters of the version's own type, in order.
	// pv: values of pool types (what earlier calls of the task returned), for
	// "pool:" parameters in order; the rest of pv feeds a "vpool:" parameter.
	Call func(obj unsafe.Pointer, a []string, objs []unsafe.Pointer, pv []any) ([]any, [][]byte)
}

// extraAny makes the argument for an interface{} parameter from its textual
// form: "b:<text>" a caller-owned []byte, "i:<n>" an int64, "nil", else a string.
func extraAny(in *[][]byte, s string) any {
	switch {
	case strings.HasPrefix(s, "b:"):
		return extraBytes(in, s[2:])
	case strings.HasPrefix(s, "i:"):
		return extraInt(s[2:])
	case s == "nil":
		return nil
	}
	return s
}

// extraBytes makes the caller's buffer for a []byte parameter.
func extraBytes(in *[][]byte, s string) []byte {
	b := []byte(s)
	*in = append(*in, b)
	return b
}

// extraStrs makes the argument for a []string parameter (elements joined by \x1e).
func extraStrs(s string) []string {
	if s == "" {
		return nil
	}
	return strings.Split(s, "\x1e")
}

// extraJSON fills an options struct from a JSON object.
func extraJSON[T any](s string) T {
	var v T
	json.Unmarshal([]byte(s), &v)
	return v
}

func extraJSONPtr[T any](s string) *T {
	if s == "nil" {
		return nil
	}
	v := extraJSON[T](s)
	return &v
}

// extraPoolTypes: reflect type strings ("gocvss31.Option", "*gocvss31.Parser")
// of the values that are kept for later calls.
var extraPoolTypes []string

func isPoolType(k string) bool {
	for _, t := range extraPoolTypes {
		if t == k {
			return true
		}
	}
	return false
}

// poolSlice makes the argument of a variadic parameter of a pool type.
func poolSlice[T any](pv []any) []T {
	var s []T
	for _, v := range pv {
		if t, ok := v.(T); ok {
			s = append(s, t)
		}
	}
	return s
}

var extraAPI []extraFn

func extraInt(s string) int64 { n, _ := strconv.ParseInt(s, 10, 64); return n }

func extraFloat(s string) float64 { f, _ := strconv.ParseFloat(s, 64); return f }

func findExtra(ver int, name string) *extraFn {
	for i := range extraAPI {
		if extraAPI[i].Ver == ver && extraAPI[i].Name == name {
			return &extraAPI[i]
		}
	}
	return nil
}

// canonValue prints a value without addresses (pointers are followed).
func canonValue(v reflect.Value, depth int) string {
	if depth > 9 {
		return "..."
	}
	if !v.IsValid() {
		return "<invalid>"
	}
	switch v.Kind() {
	case reflect.Pointer, reflect.Interface:
		if v.IsNil() {
			return "nil"
		}
		return "&" + canonValue(v.Elem(), depth+1)
	case reflect.Slice, reflect.Array:
		if v.Kind() == reflect.Slice && v.IsNil() {
			return "nil[]"
		}
		var b strings.Builder
		b.WriteByte('[')
		for i := 0; i < v.Len() && i < 64; i++ {
			if i > 0 {
				b.WriteByte(' ')
			}
			b.WriteString(canonValue(v.Index(i), depth+1))
		}
		b.WriteByte(']')
		return b.String()
	case reflect.Map:
		var parts []string
		for _, k := range v.MapKeys() {
			parts = append(parts, canonValue(k, depth+1)+":"+canonValue(v.MapIndex(k), depth+1))
		}
		sortStrings(parts)
		return "map[" + strings.Join(parts, " ") + "]"
	case reflect.Struct:
		var b strings.Builder
		b.WriteByte('{')
		for i := 0; i < v.NumField(); i++ {
			if i > 0 {
				b.WriteByte(' ')
			}
			b.WriteString(canonValue(v.Field(i), depth+1))
		}
		b.WriteByte('}')
		return b.String()
	case reflect.String:
		return strconv.Quote(v.String())
	case reflect.Bool:
		return fmt.Sprint(v.Bool())
	case reflect.Int, reflect.Int8, reflect.Int16, reflect.Int32, reflect.Int64:
		return fmt.Sprint(v.Int())
	case reflect.Uint, reflect.Uint8, reflect.Uint16, reflect.Uint32, reflect.Uint64, reflect.Uintptr:
		return fmt.Sprint(v.Uint())
	case reflect.Float32, reflect.Float64:
		return fmt.Sprintf("%016x", v.Float())
	case reflect.Func, reflect.Chan, reflect.UnsafePointer:
		if v.IsNil() {
			return "nil"
		}
		return v.Kind().String()
	}
	return v.Kind().String()
}

func sortStrings(a []string) {
	for i := 1; i < len(a); i++ {
		for j := i; j > 0 && a[j] < a[j-1]; j-- {
			a[j], a[j-1] = a[j-1], a[j]
		}
	}
}

func canonResults(rs []any, a verAPI) string {
	var parts []string
	for _, r := range rs {
		if err, ok := r.(error); ok {
			parts = append(parts, canonErr(a, err))
			continue
		}
		if r == nil {
			parts = append(parts, "nil")
			continue
		}
		parts = append(parts, canonValue(reflect.ValueOf(r), 0))
	}
	return strings.Join(parts, "|")
}

// scribble does what a caller may do with what it was handed: overwrite the
// elements of a slice (including the spare capacity an append would use),
// empty a map, reset an object behind a pointer.
func scribble(rs []any) {
	for _, r := range rs {
		if r == nil {
			continue
		}
		if _, isErr := r.(error); isErr {
			continue
		}
		scribbleValue(reflect.ValueOf(r), 0)
	}
}

// reorder reverses the slices a caller was handed (a caller that sorts what it
// got): every element stays a legal value, only the positions change.
func reorder(rs []any) {
	for _, r := range rs {
		if r == nil {
			continue
		}
		if _, isErr := r.(error); isErr {
			continue
		}
		reorderValue(reflect.ValueOf(r), 0)
	}
}

func reorderValue(v reflect.Value, depth int) {
	defer func() { recover() }()
	if depth > 3 || !v.IsValid() {
		return
	}
	switch v.Kind() {
	case reflect.Slice:
		if v.IsNil() || v.Len() < 2 {
			return
		}
		sw := reflect.Swapper(v.Interface())
		for i, j := 0, v.Len()-1; i < j; i, j = i+1, j-1 {
			sw(i, j)
		}
	case reflect.Map:
		for _, k := range v.MapKeys() {
			reorderValue(v.MapIndex(k), depth+1)
		}
	case reflect.Pointer, reflect.Interface:
		if !v.IsNil() {
			reorderValue(v.Elem(), depth+1)
		}
	}
}

func scribbleValue(v reflect.Value, depth int) {
	defer func() { recover() }() // unsettable corners: not our business
	if depth > 3 || !v.IsValid() {
		return
	}
	switch v.Kind() {
	case reflect.Slice:
		if v.IsNil() {
			return
		}
		full := v
		if v.Cap() > v.Len() {
			full = v.Slice(0, v.Cap()) // what append(v, x) would write to
		}
		for i := 0; i < full.Len(); i++ {
			e := full.Index(i)
			switch e.Kind() {
			case reflect.String:
				e.SetString("(scribble)")
			case reflect.Slice, reflect.Map, reflect.Pointer:
				scribbleValue(e, depth+1)
			default:
				e.Set(reflect.Zero(e.Type()))
			}
		}
	case reflect.Map:
		if v.IsNil() {
			return
		}
		for _, k := range v.MapKeys() {
			v.SetMapIndex(k, reflect.Value{})
		}
	case reflect.Pointer:
		if v.IsNil() {
			return
		}
		e := v.Elem()
		if e.CanSet() {
			e.Set(reflect.Zero(e.Type()))
		}
	}
}
