package main
