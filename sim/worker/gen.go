package main

// Seeded workload / schedule / fault generator (swarm style: every knob is
// drawn per run from the seed). The output is an explicit Plan.

import (
	"encoding/json"
	"fmt"
	"strings"
)

// ------------------------------------------------------------------ vectors

func genValid(r *rng, ver int) string {
	if r.chance(0.08) {
		return genCorner(r, ver)
	}
	return genValidPlain(r, ver)
}

// genCorner: corner objects - every base metric at the first (or every one at
// the last) value of its list, optional metrics random. Scores sit on their
// extremes there (10.0, 0.0), which is where rounding ties and caps live.
func genCorner(r *rng, ver int) string {
	sp := specs[ver]
	first := r.chance(0.5)
	// the tables list values in different orders per metric; "all first" and
	// "all last" are two corners of the cube, and a third one mixes per metric
	mix := r.chance(0.3)
	var parts []string
	pOpt := r.float()
	for _, m := range sp.Metrics {
		pick := func() string {
			f := first
			if mix {
				f = r.chance(0.5)
			}
			if f {
				return m.Values[0]
			}
			return m.Values[len(m.Values)-1]
		}
		switch {
		case m.Group == 0:
			parts = append(parts, m.Abv+":"+pick())
		case ver == 20:
			// whole groups only: decided below
		case r.chance(pOpt):
			parts = append(parts, m.Abv+":"+r.pick(m.Values))
		}
	}
	if ver == 20 {
		shape := r.intn(4)
		for _, m := range sp.Metrics {
			if (m.Group == 1 && (shape == 1 || shape == 3)) || (m.Group == 2 && shape >= 2) {
				parts = append(parts, m.Abv+":"+r.pick(m.Values))
			}
		}
		return strings.Join(parts, "/")
	}
	return sp.Header + "/" + strings.Join(parts, "/")
}

func genValidPlain(r *rng, ver int) string {
	sp := specs[ver]
	var parts []string
	switch ver {
	case 20:
		shape := r.intn(4) // 0 base, 1 +temporal, 2 +env, 3 both
		for _, m := range sp.Metrics {
			use := m.Group == 0 || (m.Group == 1 && (shape == 1 || shape == 3)) || (m.Group == 2 && shape >= 2)
			if use {
				parts = append(parts, m.Abv+":"+r.pick(m.Values))
			}
		}
		return strings.Join(parts, "/")
	case 30, 31:
		pOpt := r.float()
		for _, m := range sp.Metrics {
			if m.Group == 0 {
				parts = append(parts, m.Abv+":"+r.pick(m.Values))
			} else if r.chance(pOpt) {
				parts = append(parts, m.Abv+":"+r.pick(m.Values)) // may be an explicit X
			}
		}
		if r.chance(0.4) { // any order is legal in v3
			for i := len(parts) - 1; i > 0; i-- {
				j := r.intn(i + 1)
				parts[i], parts[j] = parts[j], parts[i]
			}
		}
		return sp.Header + "/" + strings.Join(parts, "/")
	default:
		pOpt := r.float()
		if r.chance(0.2) {
			pOpt = 1
		}
		for _, m := range sp.Metrics {
			if m.Group == 0 || r.chance(pOpt) {
				parts = append(parts, m.Abv+":"+r.pick(m.Values))
			}
		}
		return sp.Header + "/" + strings.Join(parts, "/")
	}
}

var junkAlphabet = []string{"A", "V", ":", "/", "N", "L", "C", "S", "3", ".", "1", "0", "4", "X", "H", " ", "a", "v", "\x00", "é", "ND", "AV:N", "CVSS:", "//", "Au:"}

func genJunk(r *rng) string {
	n := r.intn(45)
	var b strings.Builder
	for i := 0; i < n; i++ {
		b.WriteString(r.pick(junkAlphabet))
	}
	return b.String()
}

// mutate applies one defect to a (usually valid) vector.
func mutate(r *rng, s string, ver int) string {
	parts := strings.Split(s, "/")
	if len(parts) == 0 {
		return s
	}
	i := r.intn(len(parts))
	which := r.intn(20)
	if which == 19 {
		which = 16
	}
	switch which {
	case 18: // split ambiguity: "A:VL" reads like "AV" + "L"
		if k := strings.IndexByte(parts[i], ':'); k > 0 {
			sp := specs[ver]
			abv := parts[i][:k]
			var cand []string
			for j := range sp.Metrics {
				o := &sp.Metrics[j]
				if len(o.Abv) > len(abv) && strings.HasPrefix(o.Abv, abv) {
					for _, v := range o.Values {
						cand = append(cand, o.Abv[len(abv):]+v)
					}
				}
			}
			if len(cand) > 0 {
				parts[i] = parts[i][:k+1] + r.pick(cand)
			}
		}
	case 17: // a value that is legal for another metric of the version (its
		// modified/base twin half of the time), not for this one
		if k := strings.IndexByte(parts[i], ':'); k > 0 {
			sp := specs[ver]
			if m := sp.metric(parts[i][:k]); m != nil {
				var cand []string
				twin := sp.metric("M" + m.Abv)
				if twin == nil && strings.HasPrefix(m.Abv, "M") {
					twin = sp.metric(m.Abv[1:])
				}
				src := sp.Metrics
				if twin != nil && r.chance(0.5) {
					src = []metricSpec{*twin}
				}
				for _, o := range src {
					for _, v := range o.Values {
						if !m.has(v) {
							cand = append(cand, v)
						}
					}
				}
				if len(cand) > 0 {
					parts[i] = parts[i][:k+1] + r.pick(cand)
				}
			}
		}
	case 16: // the same metric twice, with two different values
		if k := strings.IndexByte(parts[i], ':'); k > 0 {
			if m := specs[ver].metric(parts[i][:k]); m != nil {
				dup := parts[i][:k+1] + r.pick(m.Values)
				for tries := 0; tries < 4 && dup == parts[i]; tries++ {
					dup = parts[i][:k+1] + r.pick(m.Values) // another value, if there is one
				}
				j := r.intn(len(parts) + 1)
				if r.chance(0.5) {
					j = i + 1 // right behind the first one
				}
				parts = append(parts[:j:j], append([]string{dup}, parts[j:]...)...)
			}
		}
	case 14: // many more parts than any version has
		for k := 10 + r.intn(50); k > 0; k-- {
			parts = append(parts, parts[r.intn(len(parts))])
		}
	case 15: // one very long element; now and then a huge one (size limits: 4 KiB, 64 KiB)
		n := 20 + r.intn(200)
		if r.chance(0.25) {
			n = []int{2100, 4200, 9000, 70000}[r.intn(4)]
		}
		parts[i] = parts[i] + strings.Repeat(r.pick([]string{"A", "/", ":", "N/", "\xff", "X:"}), n)
	case 0: // drop a part
		parts = append(parts[:i:i], parts[i+1:]...)
	case 1: // duplicate a part
		parts = append(parts[:i+1:i+1], parts[i:]...)
	case 2: // swap two parts
		j := r.intn(len(parts))
		parts[i], parts[j] = parts[j], parts[i]
	case 3: // illegal value
		if k := strings.IndexByte(parts[i], ':'); k >= 0 {
			parts[i] = parts[i][:k+1] + r.pick([]string{"Z", "", "n", "ND ", "X", "HH", "Clear", "POC"})
		}
	case 4: // lower-case
		parts[i] = strings.ToLower(parts[i])
	case 5: // truncate the string
		if len(s) > 0 {
			return s[:r.intn(len(s))]
		}
	case 6: // trailing slash
		return s + "/"
	case 7: // empty element
		parts = append(parts[:i+1:i+1], append([]string{""}, parts[i+1:]...)...)
	case 8: // header of another version
		return r.pick([]string{"CVSS:3.0/", "CVSS:3.1/", "CVSS:4.0/", "CVSS:2.0/", "CVSS:3.1", "cvss:3.1/"}) + strings.Join(parts[1:], "/")
	case 9: // extra parts at the end (v2: beyond the 14 slots of the scratch buffer)
		for k := r.intn(4) + 1; k > 0; k-- {
			parts = append(parts, r.pick([]string{"AR:H", "X:Y", "", "U:Red", "MA:N", "AV:N"}))
		}
	case 10: // abbreviation of another version
		if k := strings.IndexByte(parts[i], ':'); k >= 0 {
			parts[i] = r.pick([]string{"Au", "PR", "AT", "VC", "MS", "RE", "CDP", "TD", "MAT"}) + parts[i][k:]
		}
	case 11: // missing colon
		parts[i] = strings.Replace(parts[i], ":", "", 1)
	case 12: // leading / surrounding space
		return r.pick([]string{" " + s, s + " ", "/" + s})
	case 13: // double colon
		parts[i] = strings.Replace(parts[i], ":", "::", 1)
	}
	return strings.Join(parts, "/")
}

// genVector returns a string for ParseVector of version ver.
func genVector(r *rng, ver int) string {
	switch x := r.intn(100); {
	case x < 62:
		return genValid(r, ver)
	case x < 87:
		return mutate(r, genValid(r, ver), ver)
	case x < 94:
		return genValid(r, versions[r.intn(4)]) // maybe another version's vector
	default:
		return genJunk(r)
	}
}

// v2 strings of graded length (parts written into the 14-slot scratch
// buffer): staleness only matters when an earlier user wrote more slots.
func genV2Graded(r *rng) []string {
	full := func(shape int) string {
		var parts []string
		for _, m := range spec20.Metrics {
			use := m.Group == 0 || (m.Group == 1 && (shape == 1 || shape == 3)) || (m.Group == 2 && shape >= 2)
			if use {
				parts = append(parts, m.Abv+":"+r.pick(m.Values))
			}
		}
		return strings.Join(parts, "/")
	}
	out := []string{
		full(3),              // 14 parts
		full(3) + "/X:Y/Z:W", // > 14 parts, remainder lands in the last slot
		full(2),              // 11
		full(1),              // 9
		full(0),              // 6
		full(0) + "/E:" + r.pick(spec20.metric("E").Values),               // 7: cut short inside a group
		full(1) + "/CDP:" + r.pick(spec20.metric("CDP").Values) + "/TD:H", // 11 but incomplete env
		"AV:N",
		"",
	}
	return out
}

// ------------------------------------------------------------------ Get/Set arguments

var allAbvs, allVals []string

func init() {
	seenA, seenV := map[string]bool{}, map[string]bool{}
	for _, ver := range versions {
		for _, m := range specs[ver].Metrics {
			if !seenA[m.Abv] {
				seenA[m.Abv] = true
				allAbvs = append(allAbvs, m.Abv)
			}
			for _, v := range m.Values {
				if !seenV[v] {
					seenV[v] = true
					allVals = append(allVals, v)
				}
			}
		}
	}
}

var oddBytes = []string{"\x00", "\x01", " ", "\xff", "\t", "\n", ":", "/", "A", "x", "\x7f", "\u00a0"}

func nearMiss(r *rng, s string) string {
	switch r.intn(19) {
	case 18: // nothing but one or two odd bytes (a lone NUL matches the filler of a fixed-size table)
		return strings.Repeat(r.pick(oddBytes), 1+r.intn(2))
	case 17: // a name from a fixed-width buffer: padded to 3 or 4 bytes with NULs or spaces
		pad := r.pick([]string{"\x00", " "})
		if w := 3 + r.intn(2); len(s) < w {
			if r.chance(0.4) {
				return strings.Repeat(pad, w-len(s)) + s // right-aligned
			}
			return s + strings.Repeat(pad, w-len(s))
		}
		return s + pad
	case 16: // a proper prefix
		if len(s) > 1 {
			return s[:1+r.intn(len(s)-1)]
		}
		return ""
	case 15: // a rune (or wide integer) that truncates to a legal byte
		if len(s) > 0 {
			i := r.intn(len(s))
			return s[:i] + string(rune(int(s[i])+0x100*(1+r.intn(3)))) + s[i+1:]
		}
		return "\u0141"
	case 12: // very long (buffers that grow, length guards)
		return strings.Repeat(s+r.pick([]string{"", "/", ":", " "}), 8+r.intn(60))
	case 13: // the naming pattern of the specifications: Modified <metric>
		return "M" + s
	case 14:
		if len(s) > 1 && s[0] == 'M' {
			return s[1:]
		}
		return "M" + strings.ToLower(s)
	case 9: // an odd byte in front
		return r.pick(oddBytes) + s
	case 10: // an odd byte somewhere inside or at the end
		i := r.intn(len(s) + 1)
		return s[:i] + r.pick(oddBytes) + s[i:]
	case 11: // several odd bytes in front (length-insensitive matchers)
		return strings.Repeat(r.pick(oddBytes), 1+r.intn(3)) + s
	case 0:
		return strings.ToLower(s)
	case 1:
		return " " + s
	case 2:
		return s + " "
	case 3:
		if len(s) > 0 {
			return s[:len(s)-1]
		}
		return "?"
	case 4:
		return s + r.pick([]string{"X", "A", "N", ":", "/"})
	case 5:
		return ""
	case 6:
		return strings.ToUpper(s)
	case 7:
		return s + ":" + s
	default:
		b := []byte{byte(r.intn(256)), byte(r.intn(256))}
		return string(b[:1+r.intn(2)])
	}
}

// genMetric: how adversarial: 0 = a metric of the version, 1 = any version's
// metric, 2 = near miss.
func genMetric(r *rng, ver int, adversarial float64) string {
	sp := specs[ver]
	if !r.chance(adversarial) {
		return sp.Metrics[r.intn(len(sp.Metrics))].Abv
	}
	if r.chance(0.5) {
		return r.pick(allAbvs)
	}
	if r.chance(0.15) {
		var a []string
		for _, m := range sp.Metrics {
			a = append(a, m.Abv)
		}
		return glue(r, a)
	}
	return nearMiss(r, r.pick(allAbvs))
}

// glue joins two or three legal strings with a separator: a matcher that
// walks a packed list, compares prefixes or trims its input accepts these.
func glue(r *rng, xs []string) string {
	sep := r.pick([]string{" ", "/", ",", ":", "|", "", "\x00", "\t", ";"})
	n := 2 + r.intn(2)
	out := ""
	start := r.intn(len(xs))
	for i := 0; i < n; i++ {
		if i > 0 {
			out += sep
		}
		if r.chance(0.7) {
			out += xs[(start+i)%len(xs)] // consecutive in table order
		} else {
			out += r.pick(xs)
		}
	}
	return out
}

// valueWords: the value NAMES of the specifications, as the JSON schemas of the
// three standards spell them (a caller that holds the JSON form may pass them).
var valueWords = []string{"NETWORK", "ADJACENT_NETWORK", "ADJACENT", "LOCAL", "PHYSICAL", "LOW", "MEDIUM", "HIGH", "NONE", "SINGLE", "MULTIPLE",
	"PARTIAL", "COMPLETE", "REQUIRED", "UNCHANGED", "CHANGED", "UNPROVEN", "PROOF_OF_CONCEPT", "FUNCTIONAL", "NOT_DEFINED", "OFFICIAL_FIX",
	"TEMPORARY_FIX", "WORKAROUND", "UNAVAILABLE", "UNCONFIRMED", "UNCORROBORATED", "CONFIRMED", "UNKNOWN", "REASONABLE", "LOW_MEDIUM", "MEDIUM_HIGH",
	"ATTACKED", "POC", "UNREPORTED", "PRESENT", "ACTIVE", "PASSIVE", "NEGLIGIBLE", "SAFETY", "YES", "NO", "DIFFUSE", "CONCENTRATED", "AUTOMATIC", "USER",
	"IRRECOVERABLE", "CLEAR", "GREEN", "AMBER", "RED", "CRITICAL"}

func genValue(r *rng, ver int, abv string, adversarial float64) string {
	sp := specs[ver]
	m := sp.metric(abv)
	if m != nil && !r.chance(adversarial) {
		return r.pick(m.Values)
	}
	if r.chance(0.08) {
		w := r.pick(valueWords)
		switch r.intn(3) {
		case 0:
			return strings.ToLower(w)
		case 1:
			return w[:1] + strings.ToLower(w[1:])
		}
		return w
	}
	if m != nil && r.chance(0.15) {
		// split ambiguity: metric + value reads like a LONGER metric and one of
		// its values ("A" + "VP" = "AV" + "P", "A" + "V:P" = "AV:P")
		var cand []string
		for i := range sp.Metrics {
			o := &sp.Metrics[i]
			if len(o.Abv) > len(abv) && strings.HasPrefix(o.Abv, abv) {
				for _, v := range o.Values {
					cand = append(cand, o.Abv[len(abv):]+v, o.Abv[len(abv):]+":"+v)
				}
			}
		}
		if len(cand) > 0 {
			return r.pick(cand)
		}
	}
	if m != nil && r.chance(0.2) {
		return glue(r, m.Values)
	}
	if r.chance(0.6) {
		return r.pick(allVals)
	}
	if m != nil && r.chance(0.6) {
		return nearMiss(r, r.pick(m.Values)) // a near miss of one of the metric's OWN values
	}
	return nearMiss(r, r.pick(allVals))
}

// ------------------------------------------------------------------ plans

type weights struct {
	parse, vector, get, set, score, nomen, rating, copy_, rtrip, zero, errstr int
	advMetric, advValue                                                       float64
	v2bias                                                                    float64
	parseToCell                                                               float64
}

var propWeights = map[string]weights{
	"C14": {parse: 38, vector: 10, get: 5, set: 9, score: 10, nomen: 2, rating: 3, copy_: 5, rtrip: 6, zero: 2, errstr: 6, advMetric: 0.15, advValue: 0.15, v2bias: 0.55, parseToCell: 0.5},
	"C07": {parse: 8, vector: 3, get: 8, set: 55, score: 3, nomen: 1, rating: 0, copy_: 8, rtrip: 4, zero: 3, errstr: 1, advMetric: 0.2, advValue: 0.3, v2bias: 0.25, parseToCell: 0.9},
	"C02": {parse: 10, vector: 4, get: 3, set: 42, score: 1, nomen: 0, rating: 0, copy_: 6, rtrip: 28, zero: 4, errstr: 0, advMetric: 0.1, advValue: 0.15, v2bias: 0.25, parseToCell: 0.9},
	"C09": {parse: 6, vector: 6, get: 24, set: 42, score: 8, nomen: 2, rating: 0, copy_: 4, rtrip: 3, zero: 3, errstr: 1, advMetric: 0.5, advValue: 0.5, v2bias: 0.25, parseToCell: 0.9},
}

func pickVer(r *rng, v2bias float64) int {
	if r.chance(v2bias) {
		return 20
	}
	return versions[r.intn(4)]
}

// anchorSeed identifies the worker process: a few "anchor" vectors per version
// are derived from it and recur in many runs of that process, so that the
// same operation on the same value is observed early and late in a process
// (caches that evict, tables that fill up, recycled buffers).
var anchorSeed uint64 = 1

func anchors(ver int) []string {
	r := &rng{s: anchorSeed*0x9e3779b97f4a7c15 + uint64(ver)}
	var a []string
	for i := 0; i < 3; i++ {
		a = append(a, genValid(r, ver))
	}
	return a
}

// genPlan expands a seed into a plan for one property.
// Worker processes numbered from gcModeBase up are "collector" processes: a
// few dozen ordinary (not cold) runs, half of them with collector faults.
const gcModeBase = 200000

var procGCMode bool

func genPlan(seed uint64, prop string) *Plan { return genPlanOpt(seed, prop, false) }

// genPlanOpt: cold plans are for short-lived processes; they skip the
// initial parse of most cells (so that the library's very first use happens
// inside the tasks) and, for C14, prefer several tasks.
func genPlanOpt(seed uint64, prop string, cold bool) *Plan {
	r := &rng{s: seed}
	w := propWeights[prop]
	p := &Plan{Seed: seed, Prop: prop}

	nTasks := 1 + r.intn(4)
	if r.chance(0.15) {
		nTasks = 5 + r.intn(4) // up to 8
	}
	if prop != "C14" && r.chance(0.5) {
		nTasks = 1 // plain sequential histories
	}
	if cold && nTasks == 1 && (prop == "C14" || r.chance(0.7)) {
		nTasks = 2 + r.intn(3) // first-use windows need company
	}
	maxOps := []int{3, 6, 12, 25, 40}[r.intn(5)]

	nParse := 0
	// (in a young process a contended plan meets the library's first-use
	// windows: every task is at the same place at the same time)
	hot := r.chance(map[bool]float64{true: 0.15, false: 0.05}[prop == "C14"]) || (cold && r.chance(0.3))
	sweep := !hot && !cold && r.chance(0.06)
	repeat := !hot && !sweep && !cold && r.chance(0.05)
	crowd := !cold && !hot && !sweep && !repeat && r.chance(0.006)
	firstUse := cold && r.chance(0.5)
	if firstUse {
		hot = false
	}
	neigh := !hot && !sweep && !repeat && !cold && r.chance(map[bool]float64{true: 0.03, false: 0.08}[prop == "C14"])
	if crowd {
		neigh = false
		nTasks, nParse = genCrowd(r, p)
	} else if firstUse {
		nTasks, nParse = genFirstUse(r, p)
	} else if neigh {
		nTasks, nParse = genNeighbours(r, p)
	} else if hot {
		nTasks, nParse = genHot(r, p)
	} else if sweep {
		nTasks, nParse = genSweep(r, p)
	} else if repeat {
		nTasks, nParse = genRepeat(r, p)
	} else {
		// cells
		nShared := r.intn(4)
		for t := 0; t < nTasks; t++ {
			for k := 1 + r.intn(3); k > 0; k-- {
				p.Cells = append(p.Cells, CellSpec{Ver: pickVer(r, 0.25), Mode: mPriv, Owner: t, Init: cellInit(r)})
			}
		}
		for k := 0; k < nShared && len(p.Cells) < 12; k++ {
			mode := []string{mRO, mROHeap, mLock}[r.intn(3)]
			if prop != "C14" {
				// histories on shared objects run under the caller's lock; some
				// shared objects are only read, by everybody, without a lock
				mode = mLock
				if r.chance(0.3) {
					mode = mROHeap
				}
			}
			p.Cells = append(p.Cells, CellSpec{Ver: pickVer(r, 0.25), Mode: mode, Owner: -1, Init: cellInit(r)})
		}
		coldZero := cold && r.chance(0.7)
		for i := range p.Cells {
			if p.Cells[i].Init == "?" {
				p.Cells[i].Init = genValid(r, p.Cells[i].Ver)
				if r.chance(0.15) {
					p.Cells[i].Init = r.pick(anchors(p.Cells[i].Ver))
				}
				if coldZero && p.Cells[i].Mode != mRO && p.Cells[i].Mode != mROHeap {
					p.Cells[i].Init = "" // nothing of the library runs before the tasks
				}
			}
		}

		// per-run palette of strings: repeated keys are what O1 compares
		var palette = map[int][]string{}
		for _, ver := range versions {
			for k := 2 + r.intn(5); k > 0; k-- {
				palette[ver] = append(palette[ver], genVector(r, ver))
			}
			if r.chance(0.5) {
				palette[ver] = append(palette[ver], r.pick(anchors(ver)))
			}
		}
		graded := genV2Graded(r)
		pGraded := r.float()
		pPalette := 0.3 + 0.6*r.float()

		kinds := []struct {
			k string
			w int
		}{{kParse, w.parse}, {kVector, w.vector}, {kGet, w.get}, {kSet, w.set}, {kScore, w.score}, {kNomen, w.nomen}, {kRating, w.rating}, {kCopy, w.copy_}, {kRTrip, w.rtrip}, {kZero, w.zero}, {kErrStr, w.errstr}}
		total := 0
		for _, k := range kinds {
			total += k.w
		}
		pickKind := func() string {
			x := r.intn(total)
			for _, k := range kinds {
				if x < k.w {
					return k.k
				}
				x -= k.w
			}
			return kParse
		}
		// cells usable by task t
		usable := func(t int, mutating bool, ver int) []int {
			var c []int
			for i, cs := range p.Cells {
				if ver != 0 && cs.Ver != ver {
					continue
				}
				switch cs.Mode {
				case mPriv:
					if cs.Owner == t {
						c = append(c, i)
					}
				case mLock:
					c = append(c, i)
				default:
					if !mutating {
						c = append(c, i)
					}
				}
			}
			return c
		}
		// discovered API: a few calls in most runs; long chains of them in some
		// (values of library types are built up call by call)
		pExtra := 0.08
		if len(extraAPI) > 0 && r.chance(0.15) {
			pExtra = 0.6
		}
		for t := 0; t < nTasks; t++ {
			n := 1 + r.intn(maxOps)
			var ops []Op
			for len(ops) < n {
				// neighbour probe: the same observation before and after changing
				// one metric of the object (memos and caches keyed on part of the
				// object answer the second one with the first one's result)
				if r.chance(0.1) {
					if c := usable(t, true, 0); len(c) > 0 {
						ci := c[r.intn(len(c))]
						ver := p.Cells[ci].Ver
						obs := Op{K: r.pick([]string{kVector, kScore, kRTrip, kVector, kScore}), C: ci, D: -1}
						if obs.K == kScore {
							obs.S = r.pick(apis[ver].ScoreNames())
						}
						m := specs[ver].Metrics[r.intn(len(specs[ver].Metrics))]
						ops = append(ops, obs, Op{K: kSet, C: ci, D: -1, S: m.Abv, S2: r.pick(m.Values)}, obs)
						continue
					}
				}
				// restatement: an object is parsed, then every metric that has a
				// modified twin is restated in it (MAV := AV, ...), as a form
				// pre-filled from the base metrics does
				if r.chance(0.02) {
					ver := []int{30, 31, 40}[r.intn(3)]
					if c := usable(t, true, ver); len(c) > 0 {
						ci := c[r.intn(len(c))]
						v := genValid(r, ver)
						nParse++
						ops = append(ops, Op{K: kParse, V: ver, C: -1, D: ci, S: v})
						vals := map[string]string{}
						for _, part := range strings.Split(v, "/") {
							if k := strings.IndexByte(part, ':'); k > 0 {
								vals[part[:k]] = part[k+1:]
							}
						}
						var twins []string
						for _, m := range specs[ver].Metrics {
							if specs[ver].metric("M"+m.Abv) != nil && vals[m.Abv] != "" {
								twins = append(twins, m.Abv)
							}
						}
						if r.chance(0.5) {
							for i := len(twins) - 1; i > 0; i-- {
								j := r.intn(i + 1)
								twins[i], twins[j] = twins[j], twins[i]
							}
						}
						for _, b := range twins {
							ops = append(ops, Op{K: kSet, C: ci, D: -1, S: "M" + b, S2: vals[b]})
						}
						ops = append(ops, Op{K: r.pick([]string{kRTrip, kVector, kScore}), C: ci, D: -1})
						if ops[len(ops)-1].K == kScore {
							ops[len(ops)-1].S = r.pick(apis[ver].ScoreNames())
						}
						continue
					}
				}
				if len(extraAPI) > 0 && r.chance(pExtra) {
					if op, ok := genExtraOp(r, p, func(ver int, mut bool) []int { return usable(t, mut, ver) }); ok {
						ops = append(ops, op)
						continue
					}
				}
				k := pickKind()
				op := Op{K: k, C: -1, D: -1}
				switch k {
				case kParse:
					nParse++
					op.V = pickVer(r, w.v2bias)
					switch {
					case op.V == 20 && r.chance(pGraded):
						op.S = r.pick(graded)
					case r.chance(pPalette):
						op.S = r.pick(palette[op.V])
					default:
						op.S = genVector(r, op.V)
					}
					if r.chance(w.parseToCell) {
						if c := usable(t, true, op.V); len(c) > 0 {
							op.D = c[r.intn(len(c))]
						}
					}
				case kRating:
					op.V = []int{30, 31, 40}[r.intn(3)]
					op.F = genRatingArg(r)
				case kCopy:
					src := usable(t, false, 0)
					if len(src) == 0 {
						continue
					}
					op.C = src[r.intn(len(src))]
					dst := usable(t, true, p.Cells[op.C].Ver)
					if len(dst) == 0 {
						continue
					}
					op.D = dst[r.intn(len(dst))]
					if op.D == op.C {
						continue
					}
				case kErrStr:
					// no arguments
				default:
					mut := k == kSet || k == kZero
					c := usable(t, mut, 0)
					if len(c) == 0 {
						continue
					}
					op.C = c[r.intn(len(c))]
					ver := p.Cells[op.C].Ver
					switch k {
					case kGet:
						op.S = genMetric(r, ver, w.advMetric)
					case kSet:
						op.S = genMetric(r, ver, w.advMetric)
						op.S2 = genValue(r, ver, op.S, w.advValue)
					case kScore:
						op.S = r.pick(apis[ver].ScoreNames())
					case kNomen:
						if ver != 40 {
							continue
						}
					}
				}
				ops = append(ops, op)
			}
			p.Tasks = append(p.Tasks, ops)
		}

	}

	// schedule
	nOps := p.nOps()
	p.Policy = []string{"seq", "random", "pct", "rr", "pct", "random", "stall"}[r.intn(7)]
	if hot {
		p.Policy = []string{"random", "pct", "random", "rr", "stall"}[r.intn(5)]
	}
	if neigh {
		p.Policy = []string{"pct", "rr", "pct", "rr", "stall"}[r.intn(5)] // preemption inside the calls
	}
	lockstep := cold && nTasks > 1 && r.chance(map[bool]float64{true: 0.6, false: 0.35}[firstUse])
	if lockstep {
		p.Policy = "rr" // tasks advance almost statement by statement: one follows the other through every first-use initialisation
	}
	if nTasks == 1 {
		p.Policy = "seq"
	}
	if crowd {
		p.Policy = "crowd"
	}
	switch p.Policy {
	case "crowd":
		// every task is preempted once, early inside its first call, so that
		// dozens of calls are in flight at the same time
		for t := 0; t < nTasks; t++ {
			p.Preempt = append(p.Preempt, []int64{int64(1 + r.intn(250))})
		}
	case "seq":
		// task order only: decided at task exits
		for i := 0; i < nTasks; i++ {
			p.Sched = append(p.Sched, uint32(r.intn(8)))
		}
		// the first entries are consumed at op boundaries; make them "stay"
		p.Sched = nil
	case "random":
		pStay := []float64{0.2, 0.5, 0.8, 0.95}[r.intn(4)]
		for i := 0; i < 6*nOps+16; i++ {
			if r.chance(pStay) {
				p.Sched = append(p.Sched, 0)
			} else {
				p.Sched = append(p.Sched, uint32(1+r.intn(8)))
			}
		}
	case "pct":
		maxGap := []int{15, 60, 250, 1000, 4000}[r.intn(5)]
		for t := 0; t < nTasks; t++ {
			var g []int64
			for k := r.intn(4); k > 0; k-- {
				g = append(g, int64(1+r.intn(maxGap)))
			}
			p.Preempt = append(p.Preempt, g)
		}
		// a little switching at operation boundaries, too
		for i := 0; i < 2*nOps; i++ {
			if r.chance(0.85) {
				p.Sched = append(p.Sched, 0)
			} else {
				p.Sched = append(p.Sched, uint32(1+r.intn(8)))
			}
		}
	case "stall":
		// one victim starts first, is preempted somewhere inside a library
		// call and stays descheduled while all the others run to completion
		// (a goroutine parked by the OS scheduler for a long time)
		victim := nTasks - 1
		p.Sched = []uint32{uint32(victim)}
		for t := 0; t < nTasks; t++ {
			p.Preempt = append(p.Preempt, nil)
		}
		maxGap := []int{30, 150, 600, 3000}[r.intn(4)]
		if r.chance(0.4) {
			// ... parked AT a synchronisation operation instead (its k-th lock,
			// atomic or pool operation): the windows that matter lie between two
			// of those, and there are few of them per call
			for k := r.intn([]int{4, 12, 40, 160}[r.intn(4)]); k > 0; k-- {
				p.Sched = append(p.Sched, 0)
			}
			p.Sched = append(p.Sched, 1)
		} else {
			p.Preempt[victim] = []int64{int64(1 + r.intn(maxGap))}
		}
		if r.chance(0.7) {
			// ... or only until a random later scheduling point
			k := r.intn(3*nOps + 8)
			for i := 0; i < k; i++ {
				p.Sched = append(p.Sched, 0)
			}
			p.Sched = append(p.Sched, 0xFFFFFFFF)
		}
	case "rr":
		q := int64([]int{3, 8, 25, 80, 300}[r.intn(5)])
		if lockstep {
			q = int64([]int{1, 2, 3, 5}[r.intn(4)])
			p.Quantum = q // ... for the whole run, not only for the listed preemptions
		}
		for t := 0; t < nTasks; t++ {
			var g []int64
			for k := 0; k < 60; k++ {
				g = append(g, q+int64(r.intn(int(q))))
			}
			p.Preempt = append(p.Preempt, g)
		}
	}
	for i := 0; i < 64; i++ {
		p.PreSched = append(p.PreSched, uint32(r.intn(8)))
	}
	if crowd {
		p.PreSched = nil
		for t := 0; t < nTasks; t++ {
			p.PreSched = append(p.PreSched, 0xFFFFFFFE) // rt.SchedNext: hand over to the next task
		}
	}

	// environment: clock speed and jumps, CPU count
	p.TickNs = []int64{0, 1, 1000, 1000000, 1000000000}[r.intn(5)]
	if r.chance(0.3) {
		for i := 0; i < 8; i++ {
			p.ClockJumps = append(p.ClockJumps, []int64{0, 1000000, 1000000000, 3600000000000, 0, 0}[r.intn(6)])
		}
	}
	p.NumCPU = []int{1, 2, 4, 16}[r.intn(4)]

	// pool faults
	pMiss := []float64{0, 0, 0.1, 0.3, 1}[r.intn(5)]
	pDrop := []float64{0, 0, 0.1, 0.3, 1}[r.intn(5)]
	pClear := []float64{0, 0, 0.02, 0.1}[r.intn(4)]
	order := r.intn(5) // 0 LIFO 1 FIFO 2 stalest 3 random index 4 mixed
	for i := 0; i < 3*nParse+8; i++ {
		var d int
		x := r.float()
		get := func() int {
			o := order
			if o == 4 {
				o = r.intn(4)
			}
			switch o {
			case 1:
				return rt_PdFIFO
			case 2:
				return rt_PdStalest
			case 3:
				return rt_PdIndex | r.intn(16)<<3
			}
			return rt_PdLIFO
		}
		switch {
		case x < pClear:
			d = rt_PdClear
		case x < pClear+pMiss*0.5:
			d = rt_PdMiss // as Get: miss
		case x < pClear+pMiss*0.5+pDrop*0.5:
			d = 1 | 2<<3 // as Put: drop; as Get (1 = FIFO): a hit
		default:
			d = get()
		}
		p.PoolDec = append(p.PoolDec, d)
	}
	p.Slab = r.chance(0.35) || neigh
	p.ArgOffset = r.chance(0.12) // arguments start at every offset of a machine word
	// collector faults: mostly in short-lived processes (in a long-lived worker a
	// collection costs as much as ten runs, the process-wide oracle tables have
	// to be marked, and the heap layout depends on thousands of earlier runs)
	// stack faults: some Sets act on a caller's LOCAL variable, deep in the
	// goroutine stack (the runtime moves a stack that has to grow: an address
	// taken as a number before the move is stale after it)
	if r.chance(0.02) {
		for t := range p.Tasks {
			for i := range p.Tasks[t] {
				if p.Tasks[t][i].K == kSet && r.chance(0.6) {
					p.Tasks[t][i].N = 1 + r.intn([]int{16, 64, 256, 1024, 6000}[r.intn(5)])
				}
			}
		}
	}
	pGC := 0.002
	if cold {
		pGC = 0.1 // a young process: small heap, cheap collections, short history to replay
	}
	if procGCMode {
		pGC = 0.5 // a process of a few dozen runs that exists for these faults
	}
	if r.chance(pGC) {
		p.GCPre = true
		if len(p.Preempt) == 0 {
			for t := 0; t < nTasks; t++ {
				p.Preempt = append(p.Preempt, []int64{int64(1 + r.intn(400)), int64(1 + r.intn(400))})
			}
		}
	}
	if r.chance(pGC) && !p.AliasArgs {
		p.EphArgs = true
		for t := range p.Tasks {
			for k := r.intn(3); k > 0 && len(p.Tasks[t]) > 0; k-- {
				p.GCOps = append(p.GCOps, []int{t, r.intn(len(p.Tasks[t]))})
			}
		}
	}
	p.AliasArgs = r.chance(0.25)
	if prop == "C14" {
		for k := r.intn(4); k > 0; k-- {
			ver := versions[r.intn(4)]
			switch r.intn(3) {
			case 0:
				p.SharedErrs = append(p.SharedErrs, ErrSpec{Ver: ver, K: "get", S: genMetric(r, ver, 1)})
			case 1:
				m := specs[ver].Metrics[r.intn(len(specs[ver].Metrics))]
				p.SharedErrs = append(p.SharedErrs, ErrSpec{Ver: ver, K: "set", S: genMetric(r, ver, 0.5), S2: nearMiss(r, r.pick(m.Values))})
			default:
				p.SharedErrs = append(p.SharedErrs, ErrSpec{Ver: ver, K: "parse", S: mutate(r, genValid(r, ver), ver)})
			}
		}
		if len(p.SharedErrs) > 0 {
			// every task looks at the shared errors now and then
			for t := range p.Tasks {
				for k := 1 + r.intn(3); k > 0 && len(p.Tasks[t]) > 0; k-- {
					at := r.intn(len(p.Tasks[t]) + 1)
					op := Op{K: kErrStr, C: -1, D: r.intn(len(p.SharedErrs))}
					ops := append([]Op{}, p.Tasks[t][:at]...)
					ops = append(ops, op)
					p.Tasks[t] = append(ops, p.Tasks[t][at:]...)
				}
			}
		}
	}
	p.LoudObs = cold && prop != "C14" && (firstUse || r.chance(0.6))
	if firstUse {
		p.Policy = "first-" + p.Policy
	}
	if hot {
		p.Policy = "hot-" + p.Policy
	}
	if neigh {
		p.Policy = "neigh-" + p.Policy
	}
	if sweep {
		p.Policy = "sweep-" + p.Policy
	}
	if repeat {
		p.Policy = "repeat-" + p.Policy
	}
	return p
}

const (
	rt_PdLIFO    = 0
	rt_PdFIFO    = 1
	rt_PdMiss    = 2
	rt_PdStalest = 3
	rt_PdIndex   = 4
	rt_PdClear   = 5
)

func cellInit(r *rng) string {
	if r.chance(0.35) {
		return ""
	}
	return "?"
}

func genRatingArg(r *rng) float64 {
	switch r.intn(6) {
	case 0:
		return float64(r.intn(101)) / 10
	case 1:
		return []float64{0, 0.1, 3.9, 4.0, 6.9, 7.0, 8.9, 9.0, 10.0}[r.intn(9)]
	case 2:
		return -0.1 - r.float()
	case 3:
		return 10.000001 + r.float()*100
	default:
		return r.float() * 10
	}
}

// genHot builds a narrow, contended workload: several tasks hammer one or two
// kinds of operation on objects that hold one of two or three values of ONE
// version. Check-then-act windows, memo keys that collide and allocators that
// recycle need the same few values and many calls close together; the broad
// mix almost never produces that.
func genHot(r *rng, p *Plan) (nTasks, nParse int) {
	p.Policy = "hot"
	ver := pickVer(r, 0.3)
	nTasks = 3 + r.intn(6)                         // 3..8
	nVals := []int{2, 3, 3, 8, 48, 160}[r.intn(6)] // many values: slot collisions in hashed caches (birthday)
	var vals []string
	for i := 0; i < nVals; i++ {
		vals = append(vals, genValid(r, ver))
	}
	// also a failing and a near-identical string for the parsers
	bad := mutate(r, vals[0], ver)
	kinds := [][]string{{kScore}, {kParse}, {kVector}, {kScore, kParse}, {kVector, kParse}, {kRTrip}, {kParse, kSet}, {kGet, kScore}, {kParse, kErrStr}}[r.intn(9)]
	perTask := []int{8, 16, 32, 64}[r.intn(4)]
	// the v3.0 and v3.1 packages are textual twins (and candidates for shared
	// helpers): in some plans every other task does the same work on the same
	// vectors in the OTHER revision
	twinVer := 0
	if (ver == 30 || ver == 31) && r.chance(0.4) {
		twinVer = 61 - ver
	}
	verOf := func(t int) int {
		if twinVer != 0 && t%2 == 1 {
			return twinVer
		}
		return ver
	}
	asVer := func(s string, v int) string {
		if v != ver && strings.HasPrefix(s, specs[ver].Header) {
			return specs[v].Header + s[len(specs[ver].Header):]
		}
		return s
	}
	for t := 0; t < nTasks; t++ {
		for k := 0; k < 2; k++ {
			p.Cells = append(p.Cells, CellSpec{Ver: verOf(t), Mode: mPriv, Owner: t, Init: asVer(vals[r.intn(len(vals))], verOf(t))})
		}
	}
	// the values also live in shared read-only cells; tasks copy them into
	// their own objects now and then, so that all values stay in play
	firstVal := len(p.Cells)
	for i := range vals {
		p.Cells = append(p.Cells, CellSpec{Ver: ver, Mode: []string{mRO, mROHeap}[r.intn(2)], Owner: -1, Init: vals[i]})
	}
	pCopy := []float64{0, 0.15, 0.4}[r.intn(3)]
	sp := specs[ver]
	for t := 0; t < nTasks; t++ {
		var ops []Op
		own := []int{2 * t, 2*t + 1}
		pBad := []float64{0, 0.2, 0.2, 1}[r.intn(4)] // per task: never / sometimes / always a failing input
		for len(ops) < perTask {
			k := kinds[r.intn(len(kinds))]
			c := own[r.intn(2)]
			if r.chance(pCopy) && verOf(t) == ver {
				ops = append(ops, Op{K: kCopy, C: firstVal + r.intn(len(vals)), D: c})
			}
			if r.chance(0.2) && k != kSet && verOf(t) == ver {
				c = firstVal + r.intn(len(vals)) // observe the shared object itself
			}
			op := Op{K: k, C: c, D: -1}
			switch k {
			case kParse:
				nParse++
				op.C, op.V = -1, verOf(t)
				op.S = asVer(vals[r.intn(len(vals))], verOf(t))
				if r.chance(pBad) {
					op.S = asVer(bad, verOf(t))
				}
				if r.chance(0.5) {
					op.D = own[r.intn(2)]
				}
			case kScore:
				op.S = r.pick(apis[verOf(t)].ScoreNames())
			case kGet:
				op.S = sp.Metrics[r.intn(len(sp.Metrics))].Abv
			case kSet:
				m := sp.Metrics[r.intn(len(sp.Metrics))]
				op.S, op.S2 = m.Abv, r.pick(m.Values)
			case kErrStr:
				op.C = -1
			}
			ops = append(ops, op)
		}
		p.Tasks = append(p.Tasks, ops)
	}
	// coincidences: a value nobody has seen yet is used by ALL tasks at about
	// the same position of their histories (first-use windows: two callers
	// missing the same cache entry, losing a LoadOrStore, initialising the
	// same slot) - parsed, kept, changed and observed
	for k := r.intn(4); k > 0; k-- {
		fresh := genValid(r, ver)
		pos := r.intn(perTask + 1)
		m := sp.Metrics[r.intn(len(sp.Metrics))]
		for t := range p.Tasks {
			own := 2*t + r.intn(2)
			ins := []Op{{K: kParse, V: verOf(t), C: -1, D: own, S: asVer(fresh, verOf(t))}}
			nParse++
			if r.chance(0.6) {
				ins = append(ins, Op{K: kSet, C: own, D: -1, S: m.Abv, S2: r.pick(m.Values)})
			}
			if r.chance(0.5) {
				ins = append(ins, Op{K: r.pick([]string{kVector, kScore, kRTrip}), C: own, D: -1, S: apis[ver].ScoreNames()[0]})
			}
			at := pos + r.intn(3)
			if at > len(p.Tasks[t]) {
				at = len(p.Tasks[t])
			}
			ops := append([]Op{}, p.Tasks[t][:at]...)
			ops = append(ops, ins...)
			p.Tasks[t] = append(ops, p.Tasks[t][at:]...)
		}
	}
	return nTasks, nParse
}

// genCrowd: 66-140 tasks with one or two operations each (fixed-size tables of
// buffers or slots - 64 is a popular size - have a fallback path that only a
// crowd of simultaneous callers reaches).
func genCrowd(r *rng, p *Plan) (nTasks, nParse int) {
	ver := pickVer(r, 0.4)
	nTasks = 66 + r.intn(75)
	kind := r.pick([]string{kParse, kParse, kVector, kScore, kRTrip})
	var vals []string
	for i := 0; i < 4; i++ {
		vals = append(vals, genValid(r, ver))
	}
	bad := mutate(r, vals[0], ver)
	for t := 0; t < nTasks; t++ {
		p.Cells = append(p.Cells, CellSpec{Ver: ver, Mode: mPriv, Owner: t, Init: vals[r.intn(len(vals))]})
	}
	for t := 0; t < nTasks; t++ {
		var ops []Op
		for n := 1 + r.intn(2); n > 0; n-- {
			op := Op{K: kind, C: t, D: -1}
			switch kind {
			case kParse:
				nParse++
				op.C, op.V = -1, ver
				op.S = vals[r.intn(len(vals))]
				if r.chance(0.15) {
					op.S = bad
				}
				if r.chance(0.5) {
					op.D = t
				}
			case kScore:
				op.S = r.pick(apis[ver].ScoreNames())
			}
			ops = append(ops, op)
		}
		p.Tasks = append(p.Tasks, ops)
	}
	return nTasks, nParse
}

// genFirstUse (young processes only): 2-4 tasks that all begin with the SAME
// kind of operation on objects of ONE version - the same vector in half of the
// plans - so that they meet whatever that operation initialises on first use
// (lazily built tables, caches, once-guards) at the same moment.
func genFirstUse(r *rng, p *Plan) (nTasks, nParse int) {
	ver := versions[r.intn(4)]
	sp := specs[ver]
	nTasks = 2 + r.intn(3)
	same := genValid(r, ver)
	sameVec := r.chance(0.5)
	kind := r.pick([]string{kScore, kScore, kParse, kVector, kGet, kSet, kRTrip, kNomen, kRating})
	if (kind == kNomen && !apis[ver].HasNomen()) || (kind == kRating && !apis[ver].HasRating()) {
		kind = kScore
	}
	scoreName := r.pick(apis[ver].ScoreNames())
	m := sp.Metrics[r.intn(len(sp.Metrics))]
	for t := 0; t < nTasks; t++ {
		init := same
		if !sameVec {
			init = genValid(r, ver)
		}
		if kind == kParse && r.chance(0.6) {
			init = "" // not even a parse before the tasks
		}
		p.Cells = append(p.Cells, CellSpec{Ver: ver, Mode: mPriv, Owner: t, Init: init})
	}
	for t := 0; t < nTasks; t++ {
		mk := func(k string) Op {
			op := Op{K: k, C: t, D: -1}
			switch k {
			case kParse:
				nParse++
				op.C, op.V, op.D = -1, ver, t
				op.S = same
				if !sameVec {
					op.S = genValid(r, ver)
				}
			case kScore:
				op.S = scoreName
			case kGet:
				op.S = m.Abv
			case kSet:
				op.S, op.S2 = m.Abv, r.pick(m.Values)
			case kRating:
				op.C, op.V, op.F = -1, ver, genRatingArg(r)
			}
			return op
		}
		ops := []Op{mk(kind)}
		for n := 2 + r.intn(6); n > 0; n-- {
			k := r.pick([]string{kScore, kVector, kGet, kSet, kRTrip, kParse, kind, kind})
			if k == kScore {
				scoreName = r.pick(apis[ver].ScoreNames())
			}
			ops = append(ops, mk(k))
		}
		p.Tasks = append(p.Tasks, ops)
	}
	return nTasks, nParse
}

// genNeighbours: several tasks, each changing and observing its OWN one or two
// objects all the time, the objects being adjacent elements of one array (the
// slab): a Set that reads or writes more than its own object (a wide
// read-modify-write, a whole-word store) undoes its neighbour's update.
func genNeighbours(r *rng, p *Plan) (nTasks, nParse int) {
	nTasks = 2 + r.intn(5)
	sameVer := 0
	if r.chance(0.6) {
		sameVer = pickVer(r, 0.25)
	}
	perTask := []int{8, 16, 32, 64}[r.intn(4)]
	for t := 0; t < nTasks; t++ {
		for k := 1 + r.intn(2); k > 0; k-- {
			ver := sameVer
			if ver == 0 {
				ver = pickVer(r, 0.25)
			}
			p.Cells = append(p.Cells, CellSpec{Ver: ver, Mode: mPriv, Owner: t, Init: genValid(r, ver)})
		}
	}
	for t := 0; t < nTasks; t++ {
		var own []int
		for i, c := range p.Cells {
			if c.Owner == t {
				own = append(own, i)
			}
		}
		var ops []Op
		for len(ops) < perTask {
			c := own[r.intn(len(own))]
			ver := p.Cells[c].Ver
			sp := specs[ver]
			switch x := r.intn(10); {
			case x < 7:
				m := sp.Metrics[r.intn(len(sp.Metrics))]
				if r.chance(0.6) {
					m = sp.Metrics[r.intn(4)] // the first bytes of the object: what a neighbour's overrun hits
				}
				ops = append(ops, Op{K: kSet, C: c, D: -1, S: m.Abv, S2: r.pick(m.Values)})
			case x < 8:
				ops = append(ops, Op{K: kGet, C: c, D: -1, S: sp.Metrics[r.intn(len(sp.Metrics))].Abv})
			case x < 9:
				ops = append(ops, Op{K: r.pick([]string{kVector, kRTrip}), C: c, D: -1})
			default:
				nParse++
				ops = append(ops, Op{K: kParse, V: ver, C: -1, D: c, S: genValid(r, ver)})
			}
		}
		p.Tasks = append(p.Tasks, ops)
	}
	return nTasks, nParse
}

// genSweep builds a long, cheap history over MANY distinct values of one
// version: an object is walked through hundreds of values (Set one metric,
// observe), or hundreds of distinct vectors are parsed, with the process's
// anchor values coming back now and then. Bounded caches, interning tables
// and recycling allocators only misbehave once they are full.
func genSweep(r *rng, p *Plan) (nTasks, nParse int) {
	ver := pickVer(r, 0.25)
	sp := specs[ver]
	nTasks = 1 + r.intn(2)
	if r.chance(0.25) {
		nTasks = 3 + r.intn(4) // tables indexed by a hash of the value: collisions between goroutines
	}
	n := []int{100, 200, 400}[r.intn(3)]
	anc := anchors(ver)
	parseSweep := r.chance(0.4)
	// near-miss sweep: ONE vector (often of a special shape: base metrics only,
	// or every metric present) parsed over and over with one value replaced by
	// a value that is legal for some other metric of the version - fast paths
	// for common shapes validate with tables of their own
	missSweep := parseSweep && r.chance(0.5)
	var missBase []string
	var allVals []string
	if missSweep {
		var bp []string
		shape := r.intn(3) // 0 base only, 1 everything, 2 random
		for _, m := range sp.Metrics {
			if m.Group == 0 || shape == 1 || (shape == 2 && r.chance(0.5)) {
				bp = append(bp, m.Abv+":"+r.pick(m.Values))
			}
		}
		if ver == 20 && shape == 2 {
			bp = strings.Split(genValidPlain(r, 20), "/")
		}
		missBase = bp
		seenV := map[string]bool{}
		for _, m := range sp.Metrics {
			for _, v := range m.Values {
				if !seenV[v] {
					seenV[v] = true
					allVals = append(allVals, v)
				}
			}
		}
	}
	for t := 0; t < nTasks; t++ {
		p.Cells = append(p.Cells, CellSpec{Ver: ver, Mode: mPriv, Owner: t, Init: genValid(r, ver)}, CellSpec{Ver: ver, Mode: mPriv, Owner: t, Init: r.pick(anc)})
	}
	for t := 0; t < nTasks; t++ {
		walk, anchor := 2*t, 2*t+1
		var ops []Op
		obs := func(c int) Op {
			o := Op{K: r.pick([]string{kScore, kVector, kRTrip, kScore, kVector}), C: c, D: -1}
			if o.K == kScore {
				o.S = r.pick(apis[ver].ScoreNames())
			}
			return o
		}
		var seen []string
		for len(ops) < n {
			if missSweep {
				nParse++
				parts := append([]string{}, missBase...)
				i := r.intn(len(parts))
				k := strings.IndexByte(parts[i], ':')
				switch r.intn(10) {
				case 0:
					parts[i] = parts[i][:k+1] + nearMiss(r, parts[i][k+1:])
				case 1: // still legal: another value of the same metric
					parts[i] = parts[i][:k+1] + r.pick(sp.metric(parts[i][:k]).Values)
				default:
					parts[i] = parts[i][:k+1] + r.pick(allVals)
				}
				s := strings.Join(parts, "/")
				if ver != 20 {
					s = sp.Header + "/" + s
				}
				op := Op{K: kParse, V: ver, C: -1, D: -1, S: s}
				if r.chance(0.3) {
					op.D = walk
				}
				ops = append(ops, op)
				if op.D >= 0 && r.chance(0.5) {
					ops = append(ops, obs(walk))
				}
				continue
			}
			if parseSweep {
				nParse++
				s := genValid(r, ver)
				if len(seen) > 0 && r.chance(0.15) {
					s = r.pick(seen)
				} else if r.chance(0.05) {
					s = r.pick(anc)
				}
				if len(seen) < 64 {
					seen = append(seen, s)
				}
				op := Op{K: kParse, V: ver, C: -1, D: -1, S: s}
				if r.chance(0.3) {
					op.D = walk
				}
				ops = append(ops, op)
				if op.D >= 0 && r.chance(0.3) {
					m := sp.Metrics[r.intn(len(sp.Metrics))]
					ops = append(ops, Op{K: kSet, C: walk, D: -1, S: m.Abv, S2: r.pick(m.Values)})
				}
				continue
			}
			m := sp.Metrics[r.intn(len(sp.Metrics))]
			ops = append(ops, Op{K: kSet, C: walk, D: -1, S: m.Abv, S2: r.pick(m.Values)}, obs(walk))
			if r.chance(0.08) {
				ops = append(ops, obs(anchor)) // the recurring value
			}
		}
		p.Tasks = append(p.Tasks, ops)
	}
	return nTasks, nParse
}

// boundary repetition counts: wrap-around counters, chunked allocators and
// generation schemes misbehave at or next to a power of two
var repeatCounts = []int{1, 2, 3, 7, 8, 9, 15, 16, 17, 31, 32, 33, 63, 64, 65, 127, 128, 129, 254, 255, 256, 257, 511, 512, 513, 1023, 1024, 1025}

// genRepeat builds "B, A x k, B" histories: one operation repeated a boundary
// number of times between two occurrences of another one (same object or the
// same pooled resources), optionally next to other tasks doing the same.
func genRepeat(r *rng, p *Plan) (nTasks, nParse int) {
	ver := pickVer(r, 0.3)
	sp := specs[ver]
	nTasks = 1 + r.intn(3)
	v1, v2 := genValid(r, ver), genValid(r, ver)
	bad := mutate(r, v1, ver)
	for t := 0; t < nTasks; t++ {
		p.Cells = append(p.Cells, CellSpec{Ver: ver, Mode: mPriv, Owner: t, Init: v1}, CellSpec{Ver: ver, Mode: mPriv, Owner: t, Init: v2})
	}
	mkOp := func(t int) Op {
		c := 2*t + r.intn(2)
		switch r.intn(7) {
		case 0:
			nParse++
			return Op{K: kParse, V: ver, C: -1, D: -1, S: v1}
		case 1:
			nParse++
			return Op{K: kParse, V: ver, C: -1, D: -1, S: v2}
		case 2:
			nParse++
			return Op{K: kParse, V: ver, C: -1, D: -1, S: bad}
		case 3:
			return Op{K: kVector, C: c, D: -1}
		case 4:
			return Op{K: kScore, C: c, D: -1, S: r.pick(apis[ver].ScoreNames())}
		case 5:
			m := sp.Metrics[r.intn(len(sp.Metrics))]
			return Op{K: kSet, C: c, D: -1, S: m.Abv, S2: r.pick(m.Values)}
		default:
			nParse++
			return Op{K: kParse, V: ver, C: -1, D: c, S: r.pick([]string{v1, v2})}
		}
	}
	budget := 1300
	for t := 0; t < nTasks; t++ {
		a, b := mkOp(t), mkOp(t)
		ops := []Op{b}
		for seg := 1 + r.intn(2); seg > 0; seg-- {
			k := repeatCounts[r.intn(len(repeatCounts))]
			if k > budget {
				k = 1 + r.intn(16)
			}
			budget -= k
			for i := 0; i < k; i++ {
				ops = append(ops, a)
			}
			ops = append(ops, b)
		}
		p.Tasks = append(p.Tasks, ops)
	}
	return nTasks, nParse
}

// genExtraOp: a call of an exported function or method the harness was not
// written against (generated wrappers), with arguments from the usual
// families, and - half of the time - the caller scribbling over the results.
func genExtraOp(r *rng, p *Plan, usable func(ver int, mut bool) []int) (Op, bool) {
	fn := extraAPI[r.intn(len(extraAPI))]
	op := Op{K: kExtra, V: fn.Ver, C: -1, D: -1, S: fn.Name}
	if fn.Recv == 1 {
		c := usable(fn.Ver, true)
		if len(c) == 0 {
			return op, false
		}
		op.C = c[r.intn(len(c))]
	}
	var args []string
	var objCells []int
	for _, k := range fn.Params {
		if strings.HasPrefix(k, "pool:") {
			// a value of a library type that an earlier call returned to this
			// task (the k-th most recent one; the operation is skipped if none)
			args = append(args, fmt.Sprintf("p%d", r.intn(4)))
			continue
		}
		if strings.HasPrefix(k, "vpool:") {
			var el []string
			for n := r.intn(4); n > 0; n-- {
				el = append(el, fmt.Sprintf("p%d", r.intn(4)))
			}
			args = append(args, strings.Join(el, ","))
			continue
		}
		if strings.HasPrefix(k, "json:") {
			// an options struct: a random subset of its fields set
			if r.chance(0.1) {
				args = append(args, "nil") // (a nil pointer, or the zero value)
				continue
			}
			var fl []string
			for _, f := range strings.Split(k[5:], ",") {
				nv := strings.SplitN(f, "=", 2)
				if len(nv) != 2 || r.chance(0.4) {
					continue
				}
				switch nv[1] {
				case "bool":
					fl = append(fl, fmt.Sprintf("%q:%v", nv[0], r.chance(0.6)))
				case "int":
					fl = append(fl, fmt.Sprintf("%q:%d", nv[0], []int{0, 1, 2, 3, 10, 100}[r.intn(6)]))
				case "float":
					fl = append(fl, fmt.Sprintf("%q:%v", nv[0], genRatingArg(r)))
				default:
					b, _ := json.Marshal(genMetric(r, fn.Ver, 0.3))
					fl = append(fl, fmt.Sprintf("%q:%s", nv[0], b))
				}
			}
			args = append(args, "{"+strings.Join(fl, ",")+"}")
			continue
		}
		switch k {
		case "obj", "objptr":
			// an object of the caller's: now and then the receiver itself or the
			// same object twice (aliasing must not matter)
			c := usable(fn.Ver, k == "objptr")
			if len(c) == 0 {
				return op, false
			}
			pick := c[r.intn(len(c))]
			if op.C >= 0 && r.chance(0.35) {
				pick = op.C
			} else if len(objCells) > 0 && r.chance(0.3) {
				pick = objCells[r.intn(len(objCells))]
			}
			objCells = append(objCells, pick)
			args = append(args, "")
		case "strs":
			// a batch: mostly valid vectors, a few invalid ones at random places
			n := []int{0, 1, 2, 3, 8, 40, 300, 1100, 2100}[r.intn(9)]
			pBad := []float64{0, 0.002, 0.02, 0.2}[r.intn(4)]
			var el []string
			for i := 0; i < n; i++ {
				if r.chance(pBad) {
					el = append(el, mutate(r, genValid(r, fn.Ver), fn.Ver))
				} else {
					el = append(el, genValid(r, fn.Ver))
				}
			}
			args = append(args, strings.Join(el, "\x1e"))
		case "string", "bytes":
			switch r.intn(4) {
			case 0:
				args = append(args, genMetric(r, fn.Ver, 0.2))
			case 1:
				args = append(args, genValue(r, fn.Ver, genMetric(r, fn.Ver, 0), 0.2))
			case 2:
				args = append(args, genVector(r, fn.Ver))
			default:
				if k == "bytes" {
					args = append(args, genVector(r, fn.Ver))
				} else {
					args = append(args, genMetric(r, fn.Ver, 0))
				}
			}
		case "any":
			switch r.intn(5) {
			case 0:
				args = append(args, genVector(r, fn.Ver))
			case 1, 2:
				args = append(args, "b:"+genVector(r, fn.Ver))
			case 3:
				args = append(args, "i:"+fmt.Sprint(r.intn(100)))
			default:
				args = append(args, "nil")
			}
		case "vstrs":
			// a few strings, spread: couples "metric:value", metrics, or vectors
			fam := r.intn(3)
			var el []string
			for n := r.intn(5); n > 0; n-- {
				switch fam {
				case 0:
					m := genMetric(r, fn.Ver, 0.1)
					el = append(el, m+":"+genValue(r, fn.Ver, m, 0.15))
				case 1:
					el = append(el, genMetric(r, fn.Ver, 0.2))
				default:
					el = append(el, genVector(r, fn.Ver))
				}
			}
			args = append(args, strings.Join(el, "\x1e"))
		case "func":
			args = append(args, []string{"noop", "noop", "nil"}[r.intn(3)]) // a callback that does nothing, or none
		case "int":
			args = append(args, fmt.Sprint([]int{0, 1, 2, 3, 7, 10, 100, -1}[r.intn(8)]))
		case "float":
			args = append(args, fmt.Sprint(genRatingArg(r)))
		default:
			args = append(args, []string{"true", "false"}[r.intn(2)])
		}
	}
	op.S2 = strings.Join(args, "\x1f")
	op.A = joinInts(objCells)
	switch r.intn(10) {
	case 0, 1, 2:
		op.D = 1 // the caller overwrites what it was handed
	case 3, 4:
		op.D = 2 // the caller reorders what it was handed
	}
	return op, true
}
