// Command worker is the cvss-sim worker: it generates plans from seeds,
// executes them against the instrumented library copy it was linked with,
// evaluates the oracles and reports violations, statistics and coverage as
// JSON lines. It also replays explicit plans and minimises failing ones.
package main

import (
	"bufio"
	"bytes"
	"encoding/binary"
	"encoding/hex"
	"encoding/json"
	"flag"
	"fmt"
	"os"
	"os/exec"
	"runtime/debug"
	"sort"
	"strings"
	"time"

	"github.com/pandatix/go-cvss/verifsim/rt"
)

// persistAlways: re-read the persistent vault after every run (replay mode).
var persistAlways bool

func fatal(format string, args ...any) {
	fmt.Fprintf(os.Stderr, "worker: "+format+"\n", args...)
	os.Exit(2)
}

type planFile struct {
	Prop  string  `json:"prop"`
	Class string  `json:"class,omitempty"`
	Plans []*Plan `json:"plans"`
}

type execReport struct {
	Type       string      `json:"type"`
	Violations []Violation `json:"violations"`
	Hashes     []string    `json:"hashes"`
	Trace      []string    `json:"trace,omitempty"`
	Story      []string    `json:"story,omitempty"`
	Race       bool        `json:"race_build"`
	RaceErrors int         `json:"race_errors"`
}

func emit(w *bufio.Writer, v any) {
	b, err := json.Marshal(v)
	if err != nil {
		fatal("json: %v", err)
	}
	w.Write(b)
	w.WriteByte('\n')
	w.Flush()
}

// evalRun runs one plan and all oracles; run is the index within this process.
// gcOffArg: this process runs with automatic collections switched off (-gcoff);
// child processes of the minimiser do, too.
var gcOffArg bool

func evalRun(p *Plan, run int, trace, cover bool) (*runResult, []Violation) {
	res := runPlan(p, trace, cover)
	viol := res.Viol
	if res.AbortWhy != "" {
		// The run was unwound: deferred calls of the library were skipped, its
		// package state (a semaphore's slots, a lock) may be inconsistent. What
		// the run itself observed stands (a deadlock, a dead goroutine; nothing
		// at all for a limit of the simulator); evaluating operations "alone"
		// in this world now would only describe the wreck.
		return res, viol
	}
	if p.Prop == "C14" {
		viol = append(viol, checkO1(res, run)...)
		persistAdd(res, run)
		if run%64 == 63 || persistAlways {
			viol = append(viol, persistCheck(run)...)
		}
	}
	if p.Prop == "C07" {
		viol = append(viol, checkEq(res, run)...)
	}
	// The race monitor's verdict comes last: the other oracles replay exactly,
	// the monitor is lossy and may not report the same race in every process.
	if res.raceViol != nil {
		viol = append(viol, *res.raceViol)
	}
	return res, viol
}

func main() {
	if len(os.Args) < 2 {
		fatal("usage: worker run|exec|min|gen ...")
	}
	nPoints = numPoints
	for i, a := range os.Args {
		if a == "-gcoff" {
			// collector processes: only the collections the plans ask for happen
			// (the allocator's behaviour is then a function of the plans alone)
			debug.SetGCPercent(-1)
			gcOffArg = true
			os.Args = append(os.Args[:i:i], os.Args[i+1:]...)
			break
		}
	}
	pageInit()
	for _, v := range versions {
		apis[v].PtrFree() // lay out the value types now, on the main goroutine
	}
	switch os.Args[1] {
	case "run":
		cmdRun(os.Args[2:])
	case "exec":
		cmdExec(os.Args[2:])
	case "min":
		cmdMin(os.Args[2:])
	case "gen":
		cmdGen(os.Args[2:])
	case "dump":
		cmdDump(os.Args[2:])
	case "ref":
		cmdRef()
	default:
		fatal("unknown command %q", os.Args[1])
	}
}

func cmdGen(args []string) {
	fs := flag.NewFlagSet("gen", flag.ExitOnError)
	prop := fs.String("prop", "C14", "")
	seed := fs.Uint64("seed", 1, "")
	fs.Parse(args)
	p := genPlan(*seed, *prop)
	b, _ := json.MarshalIndent(planFile{Prop: *prop, Plans: []*Plan{p}}, "", " ")
	os.Stdout.Write(b)
}

// ------------------------------------------------------------------ pristine reference (O1x)
//
// The in-process calm replay of O1 shares the library's package state with the
// simulated run: a memo or cache poisoned by an earlier call answers the calm
// replay the same wrong way. The pristine reference evaluates sampled
// operations in a fresh process, where nothing was called before.

type refItem struct {
	Ver    int    `json:"v"`
	Op     Op     `json:"op"`
	Before string `json:"b"` // hex
	res    string
	key    string
	run    int
	task   int
	idx    int
}

func cmdRef() {
	sc := bufio.NewScanner(os.Stdin)
	sc.Buffer(make([]byte, 1<<20), 1<<26)
	w := bufio.NewWriter(os.Stdout)
	defer w.Flush()
	for sc.Scan() {
		var it refItem
		if json.Unmarshal(sc.Bytes(), &it) != nil {
			fmt.Fprintln(w, "3f")
			continue
		}
		b, _ := hex.DecodeString(it.Before)
		r := rec{ver: it.Ver, op: it.Op, before: string(b)}
		// hex: results may contain arbitrary bytes, JSON strings may not
		w.WriteString(hex.EncodeToString([]byte(calmEval(&r))))
		w.WriteByte('\n')
	}
}

// refEval evaluates the items, in the given order, in ONE fresh process and
// returns the results (nil on trouble: the oracle then stays silent).
func refEval(items []*refItem) []string {
	var in bytes.Buffer
	for _, it := range items {
		b, _ := json.Marshal(it)
		in.Write(b)
		in.WriteByte('\n')
	}
	cmd := exec.Command(os.Args[0], "ref")
	cmd.Stdin = &in
	cmd.Env = append(os.Environ(), "GORACE=halt_on_error=0 atexit_sleep_ms=0 log_path=/dev/null")
	out, err := cmd.Output()
	if err != nil {
		return nil
	}
	var res []string
	sc := bufio.NewScanner(bytes.NewReader(out))
	sc.Buffer(make([]byte, 1<<20), 1<<26)
	for sc.Scan() {
		b, err := hex.DecodeString(sc.Text())
		if err != nil {
			return nil
		}
		res = append(res, string(b))
	}
	if len(res) != len(items) {
		return nil
	}
	return res
}

var refCompared, refMismatchUnconfirmed int64

// refCheck compares recorded results with a fresh process. The batch is
// evaluated in reverse order of recording (so that an operation is not
// preceded by the ones that preceded it in the simulated run); a mismatch is
// confirmed by evaluating that single operation alone in another fresh process.
func refCheck(items []*refItem) []*refItem {
	if len(items) == 0 {
		return nil
	}
	rev := make([]*refItem, len(items))
	for i, it := range items {
		rev[len(items)-1-i] = it
	}
	res := refEval(rev)
	if res == nil {
		return nil
	}
	var bad []*refItem
	for i, it := range rev {
		refCompared++
		if res[i] == it.res {
			continue
		}
		single := refEval([]*refItem{it})
		if single != nil && single[0] != it.res {
			it.key += " [fresh process: " + trunc(single[0]) + "]"
			bad = append(bad, it)
		} else {
			refMismatchUnconfirmed++
		}
	}
	return bad
}

func recToRef(r *rec, run int) *refItem {
	return &refItem{Ver: r.ver, Op: r.op, Before: hex.EncodeToString([]byte(r.before)), res: r.res, key: r.key, run: run, task: r.task, idx: r.idx}
}

// cmdDump regenerates the plans a worker executed up to a given run: the
// fallback replay when a violation depends on state the library accumulated
// over earlier runs of the same process.
func cmdDump(args []string) {
	fs := flag.NewFlagSet("dump", flag.ExitOnError)
	prop := fs.String("prop", "C14", "")
	seed := fs.Uint64("seed", 1, "")
	wk := fs.Int("worker", 0, "")
	upto := fs.Int("upto", 0, "")
	class := fs.String("class", "", "")
	out := fs.String("out", "", "")
	cold := fs.Bool("cold", false, "")
	fs.Parse(args)
	anchorSeed = mixSeed(*seed, uint64(*wk), 0xFFFFFFFF)
	procGCMode = *wk >= gcModeBase
	pf := planFile{Prop: *prop, Class: *class}
	for i := 0; i <= *upto; i++ {
		pf.Plans = append(pf.Plans, genPlanOpt(mixSeed(*seed, uint64(*wk), uint64(i)), *prop, *cold))
	}
	b, _ := json.Marshal(pf)
	if err := os.WriteFile(*out, b, 0o644); err != nil {
		fatal("%v", err)
	}
}

type workerStats struct {
	Type                 string           `json:"type"`
	Cold                 bool             `json:"cold"`
	Worker               int              `json:"worker"`
	Seed                 uint64           `json:"seed"`
	Prop                 string           `json:"prop"`
	Runs                 int64            `json:"runs"`
	Ops                  int64            `json:"ops"`
	NonTrivial           int64            `json:"nontrivial"`
	Wall                 float64          `json:"wall_s"`
	Sim                  rt.Stats         `json:"sim"`
	Probes               probeCounts      `json:"probes"`
	Policies             map[string]int64 `json:"policies"`
	TaskHist             map[int]int64    `json:"tasks_hist"`
	Aborts               map[string]int64 `json:"aborts"`
	O1Compared           int64            `json:"o1_compared"`
	O1Calm               int64            `json:"o1_calm"`
	O1Distinct           int64            `json:"o1_distinct_keys"`
	O1Resets             int              `json:"o1_resets"`
	EqCompared           int64            `json:"eq_compared"`
	RefCompared          int64            `json:"ref_compared"`
	EqStates             int              `json:"eq_states"`
	PointsHit            []int            `json:"points_hit,omitempty"`    // ids of points executed under the scheduler
	PreemptSites         []int            `json:"preempt_sites,omitempty"` // ids of points at which a preemption fired
	SetPairs             int              `json:"set_pairs"`
	SetPairsTotal        int              `json:"set_pairs_total"` // size of the (metric set, value, neighbour metric, neighbour value) space per the specification tables
	RunHash              string           `json:"run_hash"`        // hash over all run hashes: determinism self-test
	Samples              []*Plan          `json:"samples,omitempty"`
	Violations           int              `json:"violations"`
	KnownHits            int64            `json:"known_hits"`
	PersistentGoroutines int64            `json:"persistent_goroutines"`
	EndedByAbort         string           `json:"ended_by_abort,omitempty"`
	DetViolations        int              `json:"det_violations"` // runs with a violation from a deterministic oracle (not only the race monitor)
	RaceErrors           int              `json:"race_errors"`
	DistinctFile         string           `json:"distinct_file,omitempty"`
	SigFile              string           `json:"sig_file,omitempty"`
	PairsFile            string           `json:"pairs_file,omitempty"`
}

type violationMsg struct {
	Type     string    `json:"type"`
	Worker   int       `json:"worker"`
	Run      int       `json:"run"`
	Seed     uint64    `json:"seed"`
	BaseSeed uint64    `json:"base_seed"`
	Cold     bool      `json:"cold"`
	V        Violation `json:"violation"`
	File     planFile  `json:"file"`
}

func cmdRun(args []string) {
	fs := flag.NewFlagSet("run", flag.ExitOnError)
	prop := fs.String("prop", "C14", "")
	seed := fs.Uint64("seed", 1, "")
	wk := fs.Int("worker", 0, "")
	runs := fs.Int64("runs", 0, "stop after this many runs (0: no limit)")
	secs := fs.Float64("secs", 0, "stop after this many seconds (0: no limit)")
	maxViol := fs.Int("maxviol", 3, "")
	outDir := fs.String("outdir", "", "directory for hash-set files")
	cold := fs.Bool("cold", false, "short-lived process: bias the first runs towards contention")
	knownPath := fs.String("known", "", "known_findings.json: listed violations are reported once and do not stop the search")
	progress := fs.String("progress", "", "file that always holds the index of the run in progress (read by the orchestrator if this process dies of a fatal runtime error)")
	fs.Parse(args)
	var progFile *os.File
	if *progress != "" {
		progFile, _ = os.Create(*progress)
	}
	type knownT struct {
		Property, Class, Match string
	}
	var known []knownT
	if *knownPath != "" {
		if b, err := os.ReadFile(*knownPath); err == nil {
			var kf struct {
				Known []knownT `json:"known"`
			}
			if json.Unmarshal(b, &kf) == nil {
				known = kf.Known
			}
		}
	}
	knownSeen := map[string]bool{}
	isKnown := func(v Violation) (string, bool) {
		for _, k := range known {
			if k.Property == v.Prop && k.Class == v.Class && k.Match != "" && strings.Contains(v.Detail, k.Match) {
				return k.Match, true
			}
		}
		return "", false
	}
	if _, ok := propWeights[*prop]; !ok {
		fatal("unknown property %q", *prop)
	}
	anchorSeed = mixSeed(*seed, uint64(*wk), 0xFFFFFFFF)
	procGCMode = *wk >= gcModeBase
	w := bufio.NewWriter(os.Stdout)
	st := &workerStats{Type: "stats", Cold: *cold, Worker: *wk, Seed: *seed, Prop: *prop, Policies: map[string]int64{}, TaskHist: map[int]int64{}, Aborts: map[string]int64{}}
	start := time.Now()
	distinct := map[uint64]struct{}{}
	sigs := map[uint64]struct{}{}
	pairs := map[string]bool{}
	pointHit := make([]bool, nPoints)
	preSite := map[int]bool{}
	runHash := uint64(14695981039346656037)
	var refQueue []*refItem
	// flushRef sends the sampled operations to a fresh process (O1x)
	flushRef := func() {
		for _, it := range refCheck(refQueue) {
			if st.Violations >= *maxViol {
				break
			}
			st.Violations++
			st.DetViolations++
			v := Violation{Prop: "C14", Class: "inconsistent-result", Task: it.task, Op: it.idx,
				Detail: fmt.Sprintf("%s gave %q under the simulated schedule and something else in a fresh process", it.key, trunc(it.res)), NeedsRun: -1}
			rs := mixSeed(*seed, uint64(*wk), uint64(it.run))
			pf := planFile{Prop: *prop, Class: v.Class, Plans: []*Plan{genPlanOpt(rs, *prop, *cold)}}
			emit(w, violationMsg{Type: "violation", Worker: *wk, Run: it.run, Seed: rs, BaseSeed: *seed, Cold: *cold, V: v, File: pf})
			break // one per batch is enough
		}
		refQueue = refQueue[:0]
	}
	const capSet = 1 << 20
	for i := int64(0); ; i++ {
		if *runs > 0 && i >= *runs {
			break
		}
		if *secs > 0 && i%16 == 0 && time.Since(start).Seconds() >= *secs {
			break
		}
		s := mixSeed(*seed, uint64(*wk), uint64(i))
		p := genPlanOpt(s, *prop, *cold)
		if progFile != nil {
			progFile.WriteAt([]byte(fmt.Sprintf("%019d\n", i)), 0)
		}
		cover := i%8 == 0
		res, viol := evalRun(p, int(i), false, cover)
		st.Runs++
		st.Ops += int64(p.nOps())
		if n := int64(rt.Persistent()); n > st.PersistentGoroutines {
			st.PersistentGoroutines = n
		}
		st.Policies[p.Policy]++
		st.TaskHist[len(p.Tasks)]++
		if res.AbortWhy != "" {
			st.Aborts[res.AbortWhy]++
		}
		addStats(&st.Sim, &res.Stats)
		st.Probes.add(&res.Probes)
		runHash = (runHash ^ res.Hash) * 1099511628211
		if res.NonTrivial {
			st.NonTrivial++
			if len(distinct) < capSet {
				distinct[res.Hash] = struct{}{}
			}
			if len(st.Samples) < 2 && p.nOps() <= 12 {
				st.Samples = append(st.Samples, p)
			}
		}
		if len(sigs) < capSet {
			sigs[res.SigHash] = struct{}{}
		}
		for k := range res.setPairs {
			pairs[k] = true
		}
		if cover && rt_pointHit(res) != nil {
			for id, n := range rt_pointHit(res) {
				if n > 0 {
					pointHit[id] = true
				}
			}
		}
		for _, id := range res.PreemptAt {
			preSite[id] = true
		}
		// O1x: sample operations for the pristine reference
		if *prop == "C14" {
			rr := rng{s: s ^ 0x5bd1e9955bd1e995}
			for k := 0; k < 6 && len(res.recs) > 0; k++ {
				r := &res.recs[rr.intn(len(res.recs))]
				if r.calmable {
					refQueue = append(refQueue, recToRef(r, int(i)))
				}
			}
			last := (*runs > 0 && i+1 >= *runs)
			if len(refQueue) >= 192 || last {
				flushRef()
			}
		}
		// known findings: reported once each, they do not stop the search
		if len(known) > 0 {
			kept := viol[:0]
			for _, v := range viol {
				if m, ok := isKnown(v); ok {
					if !knownSeen[m] {
						knownSeen[m] = true
						emit(w, violationMsg{Type: "violation", Worker: *wk, Run: int(i), Seed: s, BaseSeed: *seed, Cold: *cold, V: v, File: planFile{Prop: *prop, Class: v.Class, Plans: []*Plan{p}}})
					}
					st.KnownHits++
					continue
				}
				kept = append(kept, v)
			}
			viol = kept
		}
		if len(viol) > 0 {
			st.Violations++
			v := viol[0]
			if v.Class != "race" {
				st.DetViolations++
			}
			pf := planFile{Prop: *prop, Class: v.Class}
			if v.NeedsRun >= 0 && int64(v.NeedsRun) != i {
				pf.Plans = append(pf.Plans, genPlanOpt(mixSeed(*seed, uint64(*wk), uint64(v.NeedsRun)), *prop, *cold))
			}
			pf.Plans = append(pf.Plans, p)
			emit(w, violationMsg{Type: "violation", Worker: *wk, Run: int(i), Seed: s, BaseSeed: *seed, Cold: *cold, V: v, File: pf})
			if st.Violations >= *maxViol {
				break
			}
		}
		if res.AbortWhy != "" {
			// the run was unwound (deadlock, no progress, dead goroutine): the
			// library's package state may now be inconsistent with its dead
			// goroutines; this process is finished
			st.EndedByAbort = res.AbortWhy
			break
		}
	}
	if *prop == "C14" && len(refQueue) > 0 && st.Violations < *maxViol {
		flushRef()
	}
	st.Wall = time.Since(start).Seconds()
	st.RefCompared = refCompared
	st.O1Compared, st.O1Calm, st.O1Distinct, st.O1Resets = o1Compared, o1Calm, o1Distinct, o1Resets
	st.EqCompared, st.EqStates = eqCompared, len(eqTable)
	st.RunHash = fmt.Sprintf("%016x", runHash)
	st.RaceErrors = rt.RaceErrors()
	for id, h := range pointHit {
		if h {
			st.PointsHit = append(st.PointsHit, id)
		}
	}
	for id := range preSite {
		st.PreemptSites = append(st.PreemptSites, id)
	}
	sort.Ints(st.PreemptSites)
	st.SetPairs = len(pairs)
	for _, ver := range versions {
		sp := specs[ver]
		sum := 0
		for _, m := range sp.Metrics {
			sum += len(m.Values)
		}
		for _, m := range sp.Metrics {
			st.SetPairsTotal += len(m.Values) * (sum - len(m.Values))
		}
	}
	if *outDir != "" {
		st.DistinctFile = fmt.Sprintf("%s/distinct-%d.bin", *outDir, *wk)
		writeSet(st.DistinctFile, distinct)
		st.SigFile = fmt.Sprintf("%s/sig-%d.bin", *outDir, *wk)
		writeSet(st.SigFile, sigs)
		if len(pairs) > 0 {
			st.PairsFile = fmt.Sprintf("%s/pairs-%d.txt", *outDir, *wk)
			f, err := os.Create(st.PairsFile)
			if err == nil {
				bw := bufio.NewWriter(f)
				keys := make([]string, 0, len(pairs))
				for k := range pairs {
					keys = append(keys, k)
				}
				sort.Strings(keys)
				for _, k := range keys {
					bw.WriteString(k)
					bw.WriteByte('\n')
				}
				bw.Flush()
				f.Close()
			}
		}
	}
	emit(w, st)
}

func rt_pointHit(res *runResult) []uint32 { return res.pointHit }

func writeSet(path string, set map[uint64]struct{}) {
	keys := make([]uint64, 0, len(set))
	for k := range set {
		keys = append(keys, k)
	}
	sort.Slice(keys, func(i, j int) bool { return keys[i] < keys[j] })
	buf := make([]byte, 8*len(keys))
	for i, k := range keys {
		binary.LittleEndian.PutUint64(buf[8*i:], k)
	}
	if err := os.WriteFile(path, buf, 0o644); err != nil {
		fatal("write %s: %v", path, err)
	}
}

func addStats(a, b *rt.Stats) {
	a.SchedPoints += b.SchedPoints
	a.Switches += b.Switches
	a.Preemptions += b.Preemptions
	a.GCForced += b.GCForced
	a.PreemptInLib += b.PreemptInLib
	a.Points += b.Points
	a.PoolGets += b.PoolGets
	a.PoolHits += b.PoolHits
	a.PoolMissEmpty += b.PoolMissEmpty
	a.PoolMissForced += b.PoolMissForced
	a.PoolPuts += b.PoolPuts
	a.PoolDrops += b.PoolDrops
	a.PoolClears += b.PoolClears
	a.PoolStaleHits += b.PoolStaleHits
	a.PoolAliasHits += b.PoolAliasHits
	a.PoolNew += b.PoolNew
	a.PoolOverlap += b.PoolOverlap
	a.PoolMissOverlap += b.PoolMissOverlap
	a.PoolNonLIFO += b.PoolNonLIFO
	a.LockOps += b.LockOps
	a.LockBlocks += b.LockBlocks
	a.OnceOps += b.OnceOps
	a.MapOps += b.MapOps
	a.Spawned += b.Spawned
	a.QuantumYields += b.QuantumYields
}

func readPlanFile(path string) *planFile {
	b, err := os.ReadFile(path)
	if err != nil {
		fatal("%v", err)
	}
	var pf planFile
	if err := json.Unmarshal(b, &pf); err != nil {
		fatal("%s: %v", path, err)
	}
	for _, p := range pf.Plans {
		if p.Prop == "" {
			p.Prop = pf.Prop
		}
	}
	return &pf
}

// cmdExec executes the plans of a file in order, in this (fresh) process.
func cmdExec(args []string) {
	fs := flag.NewFlagSet("exec", flag.ExitOnError)
	in := fs.String("in", "", "plan file")
	trace := fs.Bool("trace", false, "")
	fs.Parse(args)
	pf := readPlanFile(*in)
	persistAlways = true
	rep := execReport{Type: "exec", Race: rt.RaceBuild, Violations: []Violation{}}
	for i, p := range pf.Plans {
		res, viol := evalRun(p, i, *trace, false)
		rep.Hashes = append(rep.Hashes, fmt.Sprintf("%016x", res.Hash))
		if i < len(pf.Plans)-1 {
			// the persistent vault is re-read after every run here (in the search
			// only every 64th run): a change it notices after an EARLIER plan of the
			// file is the change the search saw later
			for _, v := range viol {
				if v.Class == "string-changed" || v.Class == "error-changed" {
					rep.Violations = append(rep.Violations, v)
				}
			}
		}
		if i == len(pf.Plans)-1 {
			if p.Prop == "C14" && len(viol) == 0 {
				viol = append(viol, pristineAll(res)...)
			}
			rep.Violations = append(rep.Violations, viol...)
			rep.Trace = res.Trace
			rep.Story = res.Story
		}
	}
	rep.RaceErrors = rt.RaceErrors()
	emit(bufio.NewWriter(os.Stdout), rep)
}

// ------------------------------------------------------------------ minimiser

type minimiser struct {
	class    string
	prop     string
	tmp      string
	tests    int
	deadline time.Time
}

func (m *minimiser) fails(plans []*Plan) bool {
	if m.class != "race" {
		return m.fails1(plans)
	}
	// the race monitor is lossy: try a few trace shifts (see Plan.Jitter)
	last := plans[len(plans)-1]
	j0 := last.Jitter
	cand := []int{j0, j0 + 1, j0 + 2, j0 + 3}
	if m.tests == 0 {
		cand = []int{0, 1, 2, 3, 4, 5, 6, 7, 9, 11}
	}
	for _, j := range cand {
		last.Jitter = j
		if m.fails1(plans) {
			return true
		}
	}
	last.Jitter = j0
	return false
}

func (m *minimiser) fails1(plans []*Plan) bool {
	if time.Now().After(m.deadline) {
		return false
	}
	m.tests++
	b, _ := json.Marshal(planFile{Prop: m.prop, Class: m.class, Plans: plans})
	if err := os.WriteFile(m.tmp, b, 0o644); err != nil {
		fatal("%v", err)
	}
	cmd := exec.Command(os.Args[0], "exec", "-in", m.tmp)
	if gcOffArg {
		cmd.Args = append(cmd.Args, "-gcoff")
	}
	cmd.Env = append(os.Environ(), "GORACE=halt_on_error=0 atexit_sleep_ms=0 log_path=/dev/null")
	out, err := cmd.Output()
	if err != nil && len(out) == 0 {
		return false // crashed: not the same failure
	}
	var rep execReport
	if json.Unmarshal(lastLine(out), &rep) != nil {
		return false
	}
	for _, v := range rep.Violations {
		if v.Class == m.class {
			return true
		}
	}
	return false
}

func lastLine(b []byte) []byte {
	for len(b) > 0 && b[len(b)-1] == '\n' {
		b = b[:len(b)-1]
	}
	for i := len(b) - 1; i >= 0; i-- {
		if b[i] == '\n' {
			return b[i+1:]
		}
	}
	return b
}

func clonePlan(p *Plan) *Plan {
	b, _ := json.Marshal(p)
	var q Plan
	json.Unmarshal(b, &q)
	return &q
}

func cmdMin(args []string) {
	fs := flag.NewFlagSet("min", flag.ExitOnError)
	in := fs.String("in", "", "")
	out := fs.String("out", "", "")
	budget := fs.Float64("secs", 60, "")
	regen := fs.String("regen", "", "prop,class,seed,worker,upto,cold: regenerate the worker's plans 0..upto instead of reading a file")
	fs.Parse(args)
	var pf *planFile
	if *regen != "" {
		var prop, class string
		var seed uint64
		var wk, upto, cold int
		if _, err := fmt.Sscanf(strings.ReplaceAll(*regen, ",", " "), "%s %s %d %d %d %d", &prop, &class, &seed, &wk, &upto, &cold); err != nil {
			fatal("regen: %v", err)
		}
		anchorSeed = mixSeed(seed, uint64(wk), 0xFFFFFFFF)
		procGCMode = wk >= gcModeBase
		pf = &planFile{Prop: prop, Class: class}
		for i := 0; i <= upto; i++ {
			pf.Plans = append(pf.Plans, genPlanOpt(mixSeed(seed, uint64(wk), uint64(i)), prop, cold != 0))
		}
	} else {
		pf = readPlanFile(*in)
	}
	m := &minimiser{class: pf.Class, prop: pf.Prop, tmp: *out + ".cand", deadline: time.Now().Add(time.Duration(*budget * float64(time.Second)))}
	defer os.Remove(m.tmp)
	plans := pf.Plans
	if *regen != "" {
		// Which earlier runs of that process matter? First the whole history
		// (that must reproduce, or something is not deterministic), then a
		// binary search for the shortest suffix of earlier runs that still
		// fails (assumes that a longer history does not hide the failure;
		// the result is verified, so a wrong assumption only costs size).
		target := plans[len(plans)-1]
		n := len(plans) - 1
		suffix := func(k int) []*Plan {
			return append(append([]*Plan{}, plans[n-k:n]...), target)
		}
		best := -1
		// cheap attempts first: the failing run alone, then a few runs before it
		for _, k := range []int{0, 1, 4, 16, 64} {
			if k <= n && m.fails(suffix(k)) {
				best = k
				break
			}
		}
		if best < 0 {
			// the whole history may take as long as the worker took: no deadline for this one
			saved := m.deadline
			m.deadline = time.Now().Add(20 * time.Minute)
			if m.fails(suffix(n)) {
				best = n
			}
			m.deadline = saved
			if best == n {
				lo, hi := 64, n // fails at hi, assumed not to fail at lo
				for hi-lo > 8 && time.Now().Before(m.deadline) {
					mid := (lo + hi) / 2
					if m.fails(suffix(mid)) {
						hi = mid
					} else {
						lo = mid
					}
				}
				best = hi
			}
		}
		if best < 0 {
			fmt.Println(`{"type":"min","reproduced":false}`)
			os.Exit(3)
		}
		plans = suffix(best)
	} else if !m.fails(plans) {
		// not reproducible in a fresh process as it stands
		fmt.Println(`{"type":"min","reproduced":false}`)
		os.Exit(3)
	}
	// 1. earlier runs needed at all? which?
	if len(plans) > 1 && m.fails(plans[len(plans)-1:]) {
		plans = plans[len(plans)-1:]
	}
	if len(plans) > 2 {
		pre := append([]*Plan{}, plans[:len(plans)-1]...)
		lastP := plans[len(plans)-1]
		for chunk := (len(pre) + 1) / 2; chunk >= 1; chunk /= 2 {
			for i := 0; i+chunk <= len(pre); {
				cand := append(append([]*Plan{}, pre[:i]...), pre[i+chunk:]...)
				if m.fails(append(append([]*Plan{}, cand...), lastP)) {
					pre = cand
				} else {
					i += chunk
				}
			}
		}
		plans = append(pre, lastP)
	}
	last := plans[len(plans)-1]
	prefix := plans[:len(plans)-1]
	try := func(q *Plan) bool {
		if m.fails(append(append([]*Plan{}, prefix...), q)) {
			last = q
			return true
		}
		return false
	}
	// 2. whole tasks
	for t := len(last.Tasks) - 1; t >= 0; t-- {
		if len(last.Tasks[t]) == 0 {
			continue
		}
		q := clonePlan(last)
		q.Tasks[t] = nil
		try(q)
	}
	// 3. operations: chunks, then singles
	for t := range last.Tasks {
		for chunk := len(last.Tasks[t]) / 2; chunk >= 1; chunk /= 2 {
			for i := 0; i+chunk <= len(last.Tasks[t]); {
				q := clonePlan(last)
				q.Tasks[t] = append(append([]Op{}, q.Tasks[t][:i]...), q.Tasks[t][i+chunk:]...)
				if !try(q) {
					i += chunk
				}
			}
		}
	}
	// 4. schedule and faults towards "no switch, LIFO hit, keep"
	for _, f := range []func(q *Plan){
		func(q *Plan) { q.Preempt = nil },
		func(q *Plan) { q.Sched = nil },
		func(q *Plan) { q.PoolDec = nil },
		func(q *Plan) { q.PreSched = nil },
		func(q *Plan) { q.ClockJumps = nil },
		func(q *Plan) { q.TickNs = 0 },
		func(q *Plan) { q.NumCPU = 0 },
		func(q *Plan) { q.Slab = false },
		func(q *Plan) { q.LoudObs = false },
		func(q *Plan) { q.AliasArgs = false },
	} {
		q := clonePlan(last)
		f(q)
		try(q)
	}
	zero32 := func(get func(q *Plan) []uint32) {
		n := len(get(last))
		for chunk := n; chunk >= 1; chunk /= 2 {
			for i := 0; i+chunk <= n; i += chunk {
				q := clonePlan(last)
				l := get(q)
				changed := false
				for k := i; k < i+chunk; k++ {
					if l[k] != 0 {
						l[k] = 0
						changed = true
					}
				}
				if changed {
					try(q)
				}
			}
			if n > 64 && chunk < n/16 {
				break
			}
		}
	}
	zero32(func(q *Plan) []uint32 { return q.Sched })
	zero32(func(q *Plan) []uint32 { return q.PreSched })
	// pool decisions
	{
		n := len(last.PoolDec)
		for chunk := n; chunk >= 1; chunk /= 2 {
			for i := 0; i+chunk <= n; i += chunk {
				q := clonePlan(last)
				changed := false
				for k := i; k < i+chunk; k++ {
					if q.PoolDec[k] != 0 {
						q.PoolDec[k] = 0
						changed = true
					}
				}
				if changed {
					try(q)
				}
			}
		}
	}
	// preemption lists: drop entries
	for t := range last.Preempt {
		for i := len(last.Preempt[t]) - 1; i >= 0; i-- {
			q := clonePlan(last)
			q.Preempt[t] = append(append([]int64{}, q.Preempt[t][:i]...), q.Preempt[t][i+1:]...)
			try(q)
		}
	}
	// 5. trailing zeros / empty tails
	{
		q := clonePlan(last)
		for len(q.Sched) > 0 && q.Sched[len(q.Sched)-1] == 0 {
			q.Sched = q.Sched[:len(q.Sched)-1]
		}
		for len(q.PreSched) > 0 && q.PreSched[len(q.PreSched)-1] == 0 {
			q.PreSched = q.PreSched[:len(q.PreSched)-1]
		}
		for len(q.PoolDec) > 0 && q.PoolDec[len(q.PoolDec)-1] == 0 {
			q.PoolDec = q.PoolDec[:len(q.PoolDec)-1]
		}
		try(q)
	}
	// 6. cells: initial values to zero value where that keeps the failure
	for i := range last.Cells {
		if last.Cells[i].Init != "" {
			q := clonePlan(last)
			q.Cells[i].Init = ""
			try(q)
		}
	}
	// 7. drop tasks without operations and cells nobody refers to
	try(compactPlan(last))
	final := planFile{Prop: pf.Prop, Class: pf.Class, Plans: append(append([]*Plan{}, prefix...), last)}
	b, _ := json.MarshalIndent(final, "", " ")
	if err := os.WriteFile(*out, b, 0o644); err != nil {
		fatal("%v", err)
	}
	fmt.Printf(`{"type":"min","reproduced":true,"tests":%d,"ops":%d}`+"\n", m.tests, last.nOps())
}

// compactPlan removes empty tasks and unreferenced cells, renumbering the rest.
func compactPlan(p *Plan) *Plan {
	q := clonePlan(p)
	// tasks
	taskMap := map[int]int{}
	var tasks [][]Op
	var pre [][]int64
	for i, t := range q.Tasks {
		if len(t) == 0 {
			continue
		}
		taskMap[i] = len(tasks)
		tasks = append(tasks, t)
		if i < len(q.Preempt) {
			for len(pre) < len(tasks)-1 {
				pre = append(pre, nil)
			}
			pre = append(pre, q.Preempt[i])
		}
	}
	// cells
	used := map[int]bool{}
	for _, t := range tasks {
		for _, op := range t {
			if op.C >= 0 {
				used[op.C] = true
			}
			if op.D >= 0 && op.K != kExtra && op.K != kErrStr {
				used[op.D] = true
			}
			for _, i := range op.argCells() {
				if i >= 0 {
					used[i] = true
				}
			}
		}
	}
	cellMap := map[int]int{}
	var cells []CellSpec
	for i, c := range q.Cells {
		if !used[i] {
			continue
		}
		cellMap[i] = len(cells)
		if c.Owner >= 0 {
			if n, ok := taskMap[c.Owner]; ok {
				c.Owner = n
			} else {
				c.Owner = 0
			}
		}
		cells = append(cells, c)
	}
	for ti := range tasks {
		for oi := range tasks[ti] {
			op := &tasks[ti][oi]
			if op.C >= 0 {
				op.C = cellMap[op.C]
			}
			if op.D >= 0 && op.K != kExtra && op.K != kErrStr {
				op.D = cellMap[op.D]
			}
			if ac := op.argCells(); len(ac) > 0 {
				for k := range ac {
					if ac[k] >= 0 {
						ac[k] = cellMap[ac[k]]
					}
				}
				op.A = joinInts(ac)
			}
		}
	}
	q.Tasks, q.Cells, q.Preempt = tasks, cells, pre
	return q
}

// pristineAll (replay mode): every operation of the run is compared with its
// evaluation alone in a fresh process (one process per distinct operation,
// a few at a time).
func pristineAll(res *runResult) []Violation {
	seen := map[string]bool{}
	var items []*refItem
	for i := range res.recs {
		r := &res.recs[i]
		if !r.calmable || seen[r.key+"\x00"+r.res] {
			continue
		}
		seen[r.key+"\x00"+r.res] = true
		items = append(items, recToRef(r, 0))
	}
	out := make([]string, len(items))
	sem := make(chan struct{}, 8)
	done := make(chan int, len(items))
	for i := range items {
		go func(i int) {
			sem <- struct{}{}
			if r := refEval([]*refItem{items[i]}); r != nil {
				out[i] = r[0]
			} else {
				out[i] = items[i].res
			}
			<-sem
			done <- i
		}(i)
	}
	for range items {
		<-done
	}
	var v []Violation
	for i, it := range items {
		if out[i] != it.res {
			v = append(v, Violation{Prop: "C14", Class: "inconsistent-result", Task: it.task, Op: it.idx,
				Detail: fmt.Sprintf("%s gave %q under the simulated schedule and %q in a fresh process", it.key, trunc(it.res), trunc(out[i])), NeedsRun: -1})
		}
	}
	return v
}
