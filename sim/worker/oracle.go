package main

// Oracles over recorded histories that need process-wide memory:
// O1 (functional consistency against calm replay and against every earlier
// run) and the C07 equality table.

import (
	"fmt"
	"strings"
	"unsafe"

	"github.com/pandatix/go-cvss/verifsim/rt"
)

type o1Entry struct {
	res string
	run int
	obj unsafe.Pointer
}

var (
	o1Table    = map[string]o1Entry{}
	o1Resets   int
	o1Compared int64
	o1Calm     int64
	o1Distinct int64
	eqTable    = map[string]o1Entry{}
	eqCompared int64
)

// The persistent vault: a ring of strings and error values handed out in
// earlier runs of this process. A library that recycles result buffers through
// a structure of its own (a ring of buffers, a free list) overwrites a string
// only many calls later - possibly in a later run.
type pvEntry struct {
	v   vaultEntry
	run int
}
type peEntry struct {
	e   errEntry
	run int
}

var (
	pvRing    [4096]pvEntry
	pvN       int
	peRing    [1024]peEntry
	peN       int
	pvChecked int64
)

// persistAdd keeps a sample of this run's strings and errors.
func persistAdd(res *runResult, run int) {
	step := len(res.vault)/24 + 1
	for i := 0; i < len(res.vault); i += step {
		pvRing[pvN%len(pvRing)] = pvEntry{res.vault[i], run}
		pvN++
	}
	step = len(res.errs)/8 + 1
	for i := 0; i < len(res.errs); i += step {
		peRing[peN%len(peRing)] = peEntry{res.errs[i], run}
		peN++
	}
}

// persistCheck re-reads everything in the rings.
func persistCheck(run int) []Violation {
	var v []Violation
	n := pvN
	if n > len(pvRing) {
		n = len(pvRing)
	}
	for i := 0; i < n; i++ {
		e := &pvRing[i]
		pvChecked++
		if e.v.s != e.v.clone {
			nr := e.run
			if nr == run {
				nr = -1
			}
			v = append(v, Violation{Prop: "C14", Class: "string-changed", Task: e.v.task, Op: e.v.op, Detail: fmt.Sprintf("string returned by %s in run %d was %q and is %q now (run %d)", e.v.what, e.run, e.v.clone, e.v.s, run), NeedsRun: nr})
			e.v.clone = strings.Clone(e.v.s) // report once
			break
		}
	}
	n = peN
	if n > len(peRing) {
		n = len(peRing)
	}
	for i := 0; i < n && len(v) == 0; i++ {
		e := &peRing[i]
		if now := canonErr(apis[e.e.ver], e.e.err); now != e.e.canon {
			nr := e.run
			if nr == run {
				nr = -1
			}
			v = append(v, Violation{Prop: "C14", Class: "error-changed", Task: e.e.task, Op: e.e.op, Detail: fmt.Sprintf("error value returned in run %d was %q and is %q now (run %d)", e.run, e.e.canon, now, run), NeedsRun: nr})
			e.e.canon = now
			break
		}
	}
	return v
}

const o1Cap = 400000

// calmEval re-executes an operation in calm conditions: single goroutine, no
// scheduler, every pooled buffer fresh, receiver rebuilt from its recorded value.
func calmEval(r *rec) string {
	a := apis[r.ver]
	var obj unsafe.Pointer
	if r.before != "" {
		obj = a.New()
		a.FromBytes(obj, r.before)
	}
	var out opOut
	op := r.op
	op.N = 0 // evaluated alone means: on a plain heap object
	rt.CalmReset()
	if libSpawns {
		if why := rt.RunCalm(func() { callOp(a, op, obj, nil, &out, nil, nil) }); why != "" {
			out.res = "abort:" + why
		}
	} else {
		callOp(a, op, obj, nil, &out, nil, nil)
	}
	after := ""
	if obj != nil {
		after = a.Bytes(obj)
	}
	return out.res + "|" + hexs(after)
}

func checkO1(res *runResult, run int) []Violation {
	var v []Violation
	for i := range res.recs {
		r := &res.recs[i]
		if r.key == "" {
			continue
		}
		o1Compared++
		if e, ok := o1Table[r.key]; ok {
			if e.res != r.res {
				nr := e.run
				if nr == run {
					nr = -1
				}
				v = append(v, Violation{Prop: "C14", Class: "inconsistent-result", Task: r.task, Op: r.idx,
					Detail: fmt.Sprintf("%s gave %q here and %q before (same arguments, same receiver value)", r.key, trunc(r.res), trunc(e.res)), NeedsRun: nr})
			}
			continue
		}
		o1Distinct++
		if len(o1Table) >= o1Cap {
			o1Table = map[string]o1Entry{}
			o1Resets++
		}
		o1Table[r.key] = o1Entry{res: r.res, run: run}
		if r.calmable {
			o1Calm++
			if c := calmEval(r); c != r.res {
				v = append(v, Violation{Prop: "C14", Class: "inconsistent-result", Task: r.task, Op: r.idx,
					Detail: fmt.Sprintf("%s gave %q under the simulated schedule and %q when evaluated alone", r.key, trunc(r.res), trunc(c)), NeedsRun: -1})
			}
		}
	}
	return v
}

func trunc(s string) string {
	if len(s) > 300 {
		return s[:300] + "..."
	}
	return s
}

func checkEq(res *runResult, run int) []Violation {
	var v []Violation
	for _, p := range res.eq {
		eqCompared++
		if e, ok := eqTable[p.key]; ok {
			if !apis[p.ver].PtrFree() {
				// a value type with pointers inside cannot be rebuilt from bytes:
				// compare live copies with ==
				if e.obj != nil && p.obj != nil && !apis[p.ver].Equal(e.obj, p.obj) {
					nr := e.run
					if nr == run {
						nr = -1
					}
					v = append(v, Violation{Prop: "C07", Class: "same-values-not-equal", Task: p.task, Op: p.op,
						Detail: fmt.Sprintf("two v%d objects with metric values %s are not == (the value type contains pointers)", p.ver, p.key), NeedsRun: nr})
				}
			} else if e.res != p.bytes {
				// == on the value types is what the property names; compare that way
				a := apis[p.ver]
				x, y := a.New(), a.New()
				a.FromBytes(x, e.res)
				a.FromBytes(y, p.bytes)
				if !a.Equal(x, y) {
					nr := e.run
					if nr == run {
						nr = -1
					}
					v = append(v, Violation{Prop: "C07", Class: "same-values-not-equal", Task: p.task, Op: p.op,
						Detail: fmt.Sprintf("two v%d objects with metric values %s are not ==: %s and %s", p.ver, p.key, hexs(e.res), hexs(p.bytes)), NeedsRun: nr})
				}
			}
			continue
		}
		if len(eqTable) >= o1Cap {
			eqTable = map[string]o1Entry{}
		}
		eqTable[p.key] = o1Entry{res: p.bytes, run: run, obj: p.obj}
	}
	return v
}
