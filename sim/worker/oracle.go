package main

// Oracles over recorded histories that need process-wide memory:
// O1 (functional consistency against calm replay and against every earlier
// run) and the C07 equality table.

import (
	"fmt"
	"unsafe"
)

type o1Entry struct {
	res string
	run int
}

var (
	o1Table     = map[string]o1Entry{}
	o1Resets    int
	o1Compared  int64
	o1Calm      int64
	o1Distinct  int64
	eqTable     = map[string]o1Entry{}
	eqCompared  int64
	persistVault []vaultEntry // a sample of strings kept across runs
)

const o1Cap = 400000

// calmEval re-executes an operation in calm conditions: single goroutine, no
// scheduler, every pooled buffer fresh, receiver rebuilt from its recorded value.
func calmEval(r *rec) string {
	a := apis[r.ver]
	var obj unsafe.Pointer
	if r.before != "" {
		obj = a.New()
		a.FromBytes(obj, r.before)
	}
	var out opOut
	callOp(a, r.op, obj, nil, &out)
	after := ""
	if obj != nil {
		after = a.Bytes(obj)
	}
	return out.res + "|" + hexs(after)
}

func checkO1(res *runResult, run int) []Violation {
	var v []Violation
	for i := range res.recs {
		r := &res.recs[i]
		if r.key == "" {
			continue
		}
		o1Compared++
		if e, ok := o1Table[r.key]; ok {
			if e.res != r.res {
				nr := e.run
				if nr == run {
					nr = -1
				}
				v = append(v, Violation{Prop: "C14", Class: "inconsistent-result", Task: r.task, Op: r.idx,
					Detail: fmt.Sprintf("%s gave %q here and %q before (same arguments, same receiver value)", r.key, trunc(r.res), trunc(e.res)), NeedsRun: nr})
			}
			continue
		}
		o1Distinct++
		if len(o1Table) >= o1Cap {
			o1Table = map[string]o1Entry{}
			o1Resets++
		}
		o1Table[r.key] = o1Entry{res: r.res, run: run}
		if r.calmable {
			o1Calm++
			if c := calmEval(r); c != r.res {
				v = append(v, Violation{Prop: "C14", Class: "inconsistent-result", Task: r.task, Op: r.idx,
					Detail: fmt.Sprintf("%s gave %q under the simulated schedule and %q when evaluated alone", r.key, trunc(r.res), trunc(c)), NeedsRun: -1})
			}
		}
	}
	return v
}

func trunc(s string) string {
	if len(s) > 300 {
		return s[:300] + "..."
	}
	return s
}

func checkEq(res *runResult, run int) []Violation {
	var v []Violation
	for _, p := range res.eq {
		eqCompared++
		if e, ok := eqTable[p.key]; ok {
			if e.res != p.bytes {
				// == on the value types is what the property names; compare that way
				a := apis[p.ver]
				x, y := a.New(), a.New()
				a.FromBytes(x, e.res)
				a.FromBytes(y, p.bytes)
				if !a.Equal(x, y) {
					nr := e.run
					if nr == run {
						nr = -1
					}
					v = append(v, Violation{Prop: "C07", Class: "same-values-not-equal", Task: p.task, Op: p.op,
						Detail: fmt.Sprintf("two v%d objects with metric values %s are not ==: %s and %s", p.ver, p.key, hexs(e.res), hexs(p.bytes)), NeedsRun: nr})
				}
			}
			continue
		}
		if len(eqTable) >= o1Cap {
			eqTable = map[string]o1Entry{}
		}
		eqTable[p.key] = o1Entry{res: p.bytes, run: run}
	}
	return v
}
