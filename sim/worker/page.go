package main

// The write-protected page: shared read-only objects live here during a run,
// so that a library method that writes to its receiver - even the same value,
// which the race monitor can miss - faults deterministically.

import (
	"syscall"
	"unsafe"
)

type roPage struct {
	mem  []byte
	used uintptr
}

var page *roPage

func pageInit() {
	mem, err := syscall.Mmap(-1, 0, 4096, syscall.PROT_READ|syscall.PROT_WRITE, syscall.MAP_ANON|syscall.MAP_PRIVATE)
	if err != nil {
		fatal("mmap: %v", err)
	}
	page = &roPage{mem: mem}
}

func (p *roPage) reset() {
	p.unprotect()
	for i := range p.mem[:p.used] {
		p.mem[i] = 0
	}
	p.used = 0
}

func (p *roPage) alloc(size uintptr) unsafe.Pointer {
	off := (p.used + 15) &^ 15
	if off+size > uintptr(len(p.mem)) {
		fatal("ro page full")
	}
	p.used = off + size
	return unsafe.Pointer(&p.mem[off])
}

func (p *roPage) protect() {
	if err := syscall.Mprotect(p.mem, syscall.PROT_READ); err != nil {
		fatal("mprotect: %v", err)
	}
}

func (p *roPage) unprotect() {
	if err := syscall.Mprotect(p.mem, syscall.PROT_READ|syscall.PROT_WRITE); err != nil {
		fatal("mprotect: %v", err)
	}
}

func (p *roPage) contains(addr uintptr) bool {
	base := uintptr(unsafe.Pointer(&p.mem[0]))
	return addr >= base && addr < base+uintptr(len(p.mem))
}
