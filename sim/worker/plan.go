package main

import (
	"encoding/hex"
	"encoding/json"
	"strconv"
	"strings"
	"unicode/utf8"

	"github.com/pandatix/go-cvss/verifsim/rt"
)

// A Plan is one complete, explicit run: workload, schedule and faults.
// Executing a plan draws no random number and reads no clock.
type Plan struct {
	Seed      uint64     `json:"seed"`
	Prop      string     `json:"prop"`
	Policy    string     `json:"policy"`
	Cells     []CellSpec `json:"cells"`
	Tasks     [][]Op     `json:"tasks"`
	Sched     []uint32   `json:"sched,omitempty"`
	PreSched  []uint32   `json:"presched,omitempty"`
	PoolDec   []int      `json:"pooldec,omitempty"`
	Preempt   [][]int64  `json:"preempt,omitempty"`
	MaxPoints int64      `json:"max_points,omitempty"`
	// BudgetX multiplies the default step budget of the run (the budget only
	// exists to end runs in which a library call never finishes; a run that
	// exhausts it is re-examined with a much larger one before it is believed).
	BudgetX int64 `json:"budget_x,omitempty"`
	// Jitter shifts the race monitor's per-goroutine event trace (task i does
	// Jitter*(i+1) private memory writes before its first operation). The
	// monitor evicts access records pseudo-randomly by trace position, so a
	// race it reported inside a long batch may need a particular shift to be
	// reported again by a fresh process; the other oracles ignore it.
	Jitter int `json:"jitter,omitempty"`
	// environment seams: simulated clock, CPU count, package-level randomness
	// Collector faults. GCPre: a full garbage collection runs at the first few
	// preemptions that fire INSIDE library calls (a collection can start at any
	// instruction; memory the library hides from the collector - behind a
	// uintptr, say - is freed under its feet). EphArgs: string arguments are
	// handed over as fresh copies that die with the call, and GCOps lists the
	// operations (task, index) before which a collection runs, so that the
	// allocator may hand the same block to the next argument.
	// ArgOffset: string arguments are handed over as substrings of padded
	// copies, so that their data starts at offset (task + operation index) mod 8
	// of an aligned block (word-at-a-time scanners behave differently there).
	ArgOffset bool `json:"arg_offset,omitempty"`
	// Quantum: a task is made to yield (round robin) after this many statements
	// without a scheduling point (0: the default of 5000). Lock-step plans use
	// 1 to 5: the tasks advance almost statement by statement for the whole run.
	Quantum    int64   `json:"quantum,omitempty"`
	GCPre      bool    `json:"gc_pre,omitempty"`
	EphArgs    bool    `json:"eph_args,omitempty"`
	GCOps      [][]int `json:"gc_ops,omitempty"`
	TickNs     int64   `json:"tick_ns,omitempty"`
	ClockJumps []int64 `json:"clock_jumps,omitempty"`
	NumCPU     int     `json:"ncpu,omitempty"`
	// Slab: private and lock-protected cells of one version are adjacent
	// elements of one array (a caller's []CVSSxx); a parse result is copied
	// into its cell instead of being kept by pointer.
	Slab bool `json:"slab,omitempty"`
	// LoudObs: oracle observations (reading all metrics, well-formedness)
	// run as ordinary, preemptible caller code instead of unscheduled.
	LoudObs bool `json:"loud_obs,omitempty"`
	// SharedErrs: error values obtained before the tasks start (by the calls
	// described here) and then used by ALL tasks (Error(), comparison), as a
	// logger or a supervisor goroutine would.
	SharedErrs []ErrSpec `json:"shared_errs,omitempty"`
	// AliasArgs: string arguments are, where possible, substrings of strings
	// the library itself returned earlier to this task (same content, other
	// storage): results must not depend on where the bytes of an argument live.
	AliasArgs bool `json:"alias_args,omitempty"`
}

// ErrSpec describes a failing call whose error value is shared.
type ErrSpec struct {
	Ver int    `json:"ver"`
	K   string `json:"k"` // "get" | "set" | "parse"
	S   string `json:"s,omitempty"`
	S2  string `json:"s2,omitempty"`
}

// Cell sharing modes.
const (
	mPriv   = "priv"   // used by one task only
	mRO     = "ro"     // shared, read-only, lives in the write-protected page
	mROHeap = "roheap" // shared, read-only, on the heap (race monitor sees it)
	mLock   = "lock"   // shared, mutable, every use under the harness lock
)

type CellSpec struct {
	Ver   int    `json:"ver"`
	Mode  string `json:"mode"`
	Owner int    `json:"owner"`          // task index for priv cells
	Init  string `json:"init,omitempty"` // "" zero value, else a vector to parse before the tasks start (always valid UTF-8: generated from the tables)
}

// Operation kinds.
const (
	kParse  = "parse"  // ParseVector(S) [-> cell D]
	kVector = "vector" // cell C
	kGet    = "get"    // cell C, metric S
	kSet    = "set"    // cell C, metric S, value S2
	kScore  = "score"  // cell C, which S
	kNomen  = "nomen"  // cell C
	kRating = "rating" // version V, score F
	kCopy   = "copy"   // cell C -> cell D (plain Go assignment)
	kRTrip  = "rtrip"  // cell C: Vector then ParseVector, compare
	kZero   = "zero"   // cell C = zero value
	kErrStr = "errstr" // call Error() on the error kept from the task's latest failing call
	kExtra  = "extra"  // exported API the harness does not know: name S, arguments S2 (joined by \x1f), D=1: scribble over the results
)

type Op struct {
	K  string  `json:"k"`
	V  int     `json:"v,omitempty"`
	C  int     `json:"c"`
	D  int     `json:"d"`
	S  string  `json:"s,omitempty"`
	S2 string  `json:"s2,omitempty"`
	F  float64 `json:"f,omitempty"`
	N  int     `json:"n,omitempty"` // set: > 0 performs the Set on a stack copy of the object, N frames further down the stack
	A  string  `json:"a,omitempty"` // extra: the cells passed for parameters of the version's object type, comma separated, in parameter order
}

type opJSON struct {
	K  string  `json:"k"`
	V  int     `json:"v,omitempty"`
	C  int     `json:"c"`
	D  int     `json:"d"`
	S  BStr    `json:"s,omitempty"`
	S2 BStr    `json:"s2,omitempty"`
	F  float64 `json:"f,omitempty"`
	A  string  `json:"a,omitempty"`
	N  int     `json:"n,omitempty"`
}

func (o Op) MarshalJSON() ([]byte, error) {
	return json.Marshal(opJSON{o.K, o.V, o.C, o.D, BStr(o.S), BStr(o.S2), o.F, o.A, o.N})
}

func (o *Op) UnmarshalJSON(data []byte) error {
	var j opJSON
	if err := json.Unmarshal(data, &j); err != nil {
		return err
	}
	*o = Op{K: j.K, V: j.V, C: j.C, D: j.D, S: string(j.S), S2: string(j.S2), F: j.F, A: j.A, N: j.N}
	return nil
}

// argCells decodes Op.A.
func (o Op) argCells() []int {
	if o.A == "" {
		return nil
	}
	var r []int
	for _, f := range strings.Split(o.A, ",") {
		n, err := strconv.Atoi(f)
		if err != nil {
			n = -1
		}
		r = append(r, n)
	}
	return r
}

func joinInts(a []int) string {
	var p []string
	for _, n := range a {
		p = append(p, strconv.Itoa(n))
	}
	return strings.Join(p, ",")
}

// BStr is an arbitrary byte string that survives JSON: valid UTF-8 is written
// as a JSON string, anything else as {"x": "<hex>"} (encoding/json would
// silently replace invalid bytes, and a replayed plan would differ).
type BStr string

func (b BStr) MarshalJSON() ([]byte, error) {
	if utf8.ValidString(string(b)) {
		return json.Marshal(string(b))
	}
	return json.Marshal(map[string]string{"x": hex.EncodeToString([]byte(b))})
}

func (b *BStr) UnmarshalJSON(data []byte) error {
	var s string
	if err := json.Unmarshal(data, &s); err == nil {
		*b = BStr(s)
		return nil
	}
	var m map[string]string
	if err := json.Unmarshal(data, &m); err != nil {
		return err
	}
	raw, err := hex.DecodeString(m["x"])
	if err != nil {
		return err
	}
	*b = BStr(raw)
	return nil
}

func (p *Plan) simConfig(trace bool) rt.Config {
	pd := make([]uint8, len(p.PoolDec))
	for i, d := range p.PoolDec {
		pd[i] = uint8(d)
	}
	return rt.Config{Sched: p.Sched, PreSched: p.PreSched, PoolDec: pd, Preempt: p.Preempt, MaxPoints: p.MaxPoints, Trace: trace,
		TickNs: p.TickNs, ClockJumps: p.ClockJumps, NumCPU: p.NumCPU, RandSeed: p.Seed | 1, GCPre: p.GCPre, Quantum: p.Quantum}
}

// argBytes: total size of the string arguments of the plan (long inputs and
// batches legitimately cost many steps).
func (p *Plan) argBytes() int64 {
	var n int64
	for _, t := range p.Tasks {
		for _, op := range t {
			n += int64(len(op.S) + len(op.S2))
		}
	}
	return n
}

func (p *Plan) nOps() int {
	n := 0
	for _, t := range p.Tasks {
		n += len(t)
	}
	return n
}

// ------------------------------------------------------------------ PRNG

// rng is splitmix64: tiny, seedable from one integer, identical on every
// toolchain.
type rng struct{ s uint64 }

func (r *rng) next() uint64 {
	r.s += 0x9e3779b97f4a7c15
	z := r.s
	z = (z ^ (z >> 30)) * 0xbf58476d1ce4e5b9
	z = (z ^ (z >> 27)) * 0x94d049bb133111eb
	return z ^ (z >> 31)
}
func (r *rng) intn(n int) int {
	if n <= 1 {
		return 0
	}
	return int(r.next() % uint64(n))
}
func (r *rng) float() float64 { return float64(r.next()>>11) / (1 << 53) }
func (r *rng) chance(p float64) bool {
	return r.float() < p
}
func (r *rng) pick(xs []string) string { return xs[r.intn(len(xs))] }

func mixSeed(seed uint64, w, i uint64) uint64 {
	r := rng{s: seed ^ (w+1)*0xd6e8feb86659fd93 ^ (i+1)*0xca5a826395121157}
	r.next()
	return r.next()
}
