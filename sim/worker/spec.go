package main

// Specification tables, transcribed from the CVSS documents and not from the
// library: v2.0 complete guide (section 2, vector table in 2.4), v3.0 / v3.1
// specification (sections 2-4, vector string table in section 6), v4.0
// specification (sections 2-5, Table 23). They are used for membership
// ("is m a metric of this version, is v one of its values") and enumeration
// only: no bit layout, no numeric code, no score.

import "strings"

type metricSpec struct {
	Abv    string
	Values []string
	Group  int  // index into verSpec.Groups
	Opt    bool // may be left out of a vector (v3/v4) / has an explicit not-defined value
	NotDef string
}

type verSpec struct {
	Ver     int
	Header  string // "" for v2
	Metrics []metricSpec
	Groups  []string
	idx     map[string]int
}

func (v *verSpec) metric(abv string) *metricSpec {
	if i, ok := v.idx[abv]; ok {
		return &v.Metrics[i]
	}
	return nil
}

func (m *metricSpec) has(val string) bool {
	for _, x := range m.Values {
		if x == val {
			return true
		}
	}
	return false
}

func mk(ver int, header string, groups []string, rows ...string) *verSpec {
	v := &verSpec{Ver: ver, Header: header, Groups: groups, idx: map[string]int{}}
	for _, r := range rows {
		// "group|abv|v1,v2,...|notdef"
		f := strings.Split(r, "|")
		g := 0
		for i, n := range groups {
			if n == f[0] {
				g = i
			}
		}
		m := metricSpec{Abv: f[1], Values: strings.Split(f[2], ","), Group: g}
		if len(f) > 3 && f[3] != "" {
			m.Opt = true
			m.NotDef = f[3]
		}
		v.idx[m.Abv] = len(v.Metrics)
		v.Metrics = append(v.Metrics, m)
	}
	return v
}

var spec20 = mk(20, "", []string{"base", "temporal", "environmental"},
	"base|AV|L,A,N",
	"base|AC|H,M,L",
	"base|Au|M,S,N",
	"base|C|N,P,C",
	"base|I|N,P,C",
	"base|A|N,P,C",
	"temporal|E|U,POC,F,H,ND|ND",
	"temporal|RL|OF,TF,W,U,ND|ND",
	"temporal|RC|UC,UR,C,ND|ND",
	"environmental|CDP|N,L,LM,MH,H,ND|ND",
	"environmental|TD|N,L,M,H,ND|ND",
	"environmental|CR|L,M,H,ND|ND",
	"environmental|IR|L,M,H,ND|ND",
	"environmental|AR|L,M,H,ND|ND",
)

func spec3(ver int, header string) *verSpec {
	return mk(ver, header, []string{"base", "temporal", "environmental"},
		"base|AV|N,A,L,P",
		"base|AC|L,H",
		"base|PR|N,L,H",
		"base|UI|N,R",
		"base|S|U,C",
		"base|C|H,L,N",
		"base|I|H,L,N",
		"base|A|H,L,N",
		"temporal|E|X,U,P,F,H|X",
		"temporal|RL|X,O,T,W,U|X",
		"temporal|RC|X,U,R,C|X",
		"environmental|CR|X,L,M,H|X",
		"environmental|IR|X,L,M,H|X",
		"environmental|AR|X,L,M,H|X",
		"environmental|MAV|X,N,A,L,P|X",
		"environmental|MAC|X,L,H|X",
		"environmental|MPR|X,N,L,H|X",
		"environmental|MUI|X,N,R|X",
		"environmental|MS|X,U,C|X",
		"environmental|MC|X,N,L,H|X",
		"environmental|MI|X,N,L,H|X",
		"environmental|MA|X,N,L,H|X",
	)
}

var spec30 = spec3(30, "CVSS:3.0")
var spec31 = spec3(31, "CVSS:3.1")

var spec40 = mk(40, "CVSS:4.0", []string{"base", "threat", "environmental", "supplemental"},
	"base|AV|N,A,L,P",
	"base|AC|L,H",
	"base|AT|N,P",
	"base|PR|N,L,H",
	"base|UI|N,P,A",
	"base|VC|H,L,N",
	"base|VI|H,L,N",
	"base|VA|H,L,N",
	"base|SC|H,L,N",
	"base|SI|H,L,N",
	"base|SA|H,L,N",
	"threat|E|X,A,P,U|X",
	"environmental|CR|X,H,M,L|X",
	"environmental|IR|X,H,M,L|X",
	"environmental|AR|X,H,M,L|X",
	"environmental|MAV|X,N,A,L,P|X",
	"environmental|MAC|X,L,H|X",
	"environmental|MAT|X,N,P|X",
	"environmental|MPR|X,N,L,H|X",
	"environmental|MUI|X,N,P,A|X",
	"environmental|MVC|X,H,L,N|X",
	"environmental|MVI|X,H,L,N|X",
	"environmental|MVA|X,H,L,N|X",
	"environmental|MSC|X,H,L,N|X",
	"environmental|MSI|X,S,H,L,N|X",
	"environmental|MSA|X,S,H,L,N|X",
	"supplemental|S|X,N,P|X",
	"supplemental|AU|X,N,Y|X",
	"supplemental|R|X,A,U,I|X",
	"supplemental|V|X,D,C|X",
	"supplemental|RE|X,L,M,H|X",
	"supplemental|U|X,Clear,Green,Amber,Red|X",
)

var specs = map[int]*verSpec{20: spec20, 30: spec30, 31: spec31, 40: spec40}
var versions = []int{20, 30, 31, 40}

// grammatical reports whether s is a well-formed vector of the version,
// decided from the tables above (independent recogniser, used by O4/C09 on
// the output of Vector()).
func (v *verSpec) grammatical(s string) bool {
	parts := strings.Split(s, "/")
	if v.Header != "" {
		if parts[0] != v.Header {
			return false
		}
		parts = parts[1:]
	}
	type kv struct{ k, val string }
	var kvs []kv
	for _, p := range parts {
		i := strings.IndexByte(p, ':')
		if i < 0 {
			return false
		}
		kvs = append(kvs, kv{p[:i], p[i+1:]})
	}
	seen := map[string]bool{}
	for _, e := range kvs {
		m := v.metric(e.k)
		if m == nil || seen[e.k] || !m.has(e.val) {
			return false
		}
		seen[e.k] = true
	}
	switch v.Ver {
	case 20:
		// whole groups, fixed order
		want := []int{6, 9, 11, 14}
		n := len(kvs)
		okLen := false
		for _, w := range want {
			if n == w {
				okLen = true
			}
		}
		if !okLen {
			return false
		}
		var exp []string
		switch n {
		case 6:
			exp = abvs(v, 0)
		case 9:
			exp = append(abvs(v, 0), abvs(v, 1)...)
		case 11:
			exp = append(abvs(v, 0), abvs(v, 2)...)
		case 14:
			exp = append(append(abvs(v, 0), abvs(v, 1)...), abvs(v, 2)...)
		}
		for i, e := range kvs {
			if e.k != exp[i] {
				return false
			}
		}
		return true
	case 30, 31:
		for _, m := range v.Metrics {
			if m.Group == 0 && !seen[m.Abv] {
				return false
			}
		}
		return true
	default: // 40
		pos := -1
		for _, e := range kvs {
			p := v.idx[e.k]
			if p <= pos {
				return false
			}
			pos = p
		}
		for _, m := range v.Metrics {
			if m.Group == 0 && !seen[m.Abv] {
				return false
			}
		}
		return true
	}
}

func abvs(v *verSpec, group int) []string {
	var r []string
	for _, m := range v.Metrics {
		if m.Group == group {
			r = append(r, m.Abv)
		}
	}
	return r
}
